//! The file family: configurations and contents chosen so that the layouts the unit tests
//! never produce (multi-block index levels, entries larger than a block, 0xFF-heavy and
//! prefix-chained keys, empty key / values) are reached on purpose.
use crate::util::{pick, R};
use grenad::{CompressionType, Writer};
use rand::seq::SliceRandom;
use rand::Rng;
use serde::{Deserialize, Serialize};
use std::num::NonZeroUsize;

#[derive(Clone, Debug, Serialize, Deserialize, PartialEq)]
pub struct Cfg {
    /// grenad's codec id: 0 None, 1 SnappyPre05, 2 Zlib, 3 Lz4, 4 Zstd, 5 Snappy
    pub codec: u8,
    pub level: u32,
    pub block_size: usize,
    pub interval: usize,
    pub levels: u8,
}

pub fn codec_of(id: u8) -> CompressionType {
    match id {
        0 => CompressionType::None,
        1 => CompressionType::SnappyPre05,
        2 => CompressionType::Zlib,
        3 => CompressionType::Lz4,
        4 => CompressionType::Zstd,
        5 => CompressionType::Snappy,
        _ => panic!("bad codec id"),
    }
}

pub fn codec_id(c: CompressionType) -> u8 {
    c as u8
}

pub fn codec04_of(id: u8) -> grenad_0_4::CompressionType {
    use grenad_0_4::CompressionType as C;
    match id {
        0 => C::None,
        1 => C::Snappy,
        2 => C::Zlib,
        3 => C::Lz4,
        4 => C::Zstd,
        _ => panic!("codec id not supported by 0.4.7"),
    }
}

impl Cfg {
    pub fn default_small() -> Cfg {
        Cfg { codec: 0, level: 0, block_size: 1024, interval: 8, levels: 0 }
    }
    /// The setters are called in an order that depends on the configuration, so that every order
    /// of builder calls occurs over a run (a setter must not depend on what was set before it).
    pub fn builder(&self) -> grenad::WriterBuilder {
        let mut b = Writer::builder();
        let perm = (self.codec as usize).wrapping_add(self.level as usize).wrapping_add(self.block_size).wrapping_add(self.interval).wrapping_add(self.levels as usize) % 5;
        for step in 0..5 {
            match (step + perm) % 5 {
                0 => {
                    b.compression_type(codec_of(self.codec));
                }
                1 => {
                    b.compression_level(self.level);
                }
                2 => {
                    b.block_size(self.block_size);
                }
                3 => {
                    b.index_key_interval(NonZeroUsize::new(self.interval).unwrap());
                }
                _ => {
                    b.index_levels(self.levels);
                }
            }
        }
        b
    }
    /// TLC integers are 32-bit: sizes above 2^30 are logged as 2^30 (a block size that large means
    /// "never cut" either way)
    pub fn logged_block_size(&self) -> usize {
        self.block_size.min(1 << 30)
    }
    pub fn json(&self) -> serde_json::Value {
        let mut c = self.clone();
        c.block_size = self.logged_block_size();
        c.interval = self.interval.min(1 << 30);
        serde_json::to_value(&c).unwrap()
    }
}

/// Random configuration. `heavy` allows the expensive corners (zstd 19, 254/255 levels).
pub fn random_cfg(r: &mut R, heavy: bool) -> Cfg {
    let codec = *pick(r, &[0u8, 0, 0, 1, 2, 3, 4, 5, 5]);
    let level = match codec {
        2 => *pick(r, &[0u32, 1, 6, 9]),
        4 => {
            if heavy {
                *pick(r, &[0u32, 1, 3, 9])
            } else {
                *pick(r, &[0u32, 1, 3])
            }
        }
        _ => *pick(r, &[0u32, 0, 3, 1000]),
    };
    let block_size = *pick(r, &[0usize, 1, 1024, 1024, 1024, 1025, 1500, 2000, 4096, 8192, 65536]);
    let interval = *pick(r, &[1usize, 1, 2, 3, 8, 8, 9, 16, 1000]);
    let levels = if heavy {
        *pick(r, &[0u8, 0, 1, 1, 2, 2, 2, 3, 3, 4, 7, 254, 255])
    } else {
        *pick(r, &[0u8, 0, 1, 2, 2, 3, 3, 4])
    };
    Cfg { codec, level, block_size, interval, levels }
}

/// Configuration that produces deep, multi-block index trees with few entries
/// (1 KiB blocks; combined with 300-byte keys an index block holds 4 children).
pub fn tree_cfg(r: &mut R) -> Cfg {
    Cfg {
        codec: *pick(r, &[0u8, 0, 0, 5, 3]),
        level: 0,
        block_size: 1024,
        interval: *pick(r, &[1usize, 2, 3, 8]),
        levels: *pick(r, &[0u8, 1, 2, 2, 3, 3, 4]),
    }
}

pub type Entry = (Vec<u8>, Vec<u8>);

/// Deterministic value of an entry: `len` bytes derived from `tag`, unique for len >= 4.
pub fn value_for(tag: u32, len: usize) -> Vec<u8> {
    let mut v = Vec::with_capacity(len);
    let t = tag.to_be_bytes();
    let mut x = tag.wrapping_mul(2654435761).wrapping_add(12345);
    for i in 0..len {
        if i < 4 {
            v.push(t[i]);
        } else {
            x = x.wrapping_mul(1664525).wrapping_add(1013904223);
            // low entropy so that the codecs really compress
            v.push(((x >> 24) & 0x0f) as u8 + b'a');
        }
    }
    v
}

pub const ALPHA: [u8; 4] = [0x00, 0x01, 0xFE, 0xFF];

/// All strings of length 0..=maxlen over ALPHA.
pub fn alpha_strings(maxlen: usize) -> Vec<Vec<u8>> {
    let mut out = vec![vec![]];
    let mut layer = vec![vec![]];
    for _ in 0..maxlen {
        let mut next = Vec::new();
        for s in &layer {
            for &b in &ALPHA {
                let mut t: Vec<u8> = s.clone();
                t.push(b);
                next.push(t);
            }
        }
        out.extend(next.iter().cloned());
        layer = next;
    }
    out
}

/// 300-byte keys: common 296-byte stem + 4 distinguishing bytes.
pub fn long_key(i: u32) -> Vec<u8> {
    let mut k = vec![0xABu8; 296];
    k.extend_from_slice(&i.to_be_bytes());
    k
}

#[derive(Clone, Copy, Debug, PartialEq)]
pub enum KeyKind {
    Alpha,
    Long,
    Mixed,
    Counter,
}

pub fn random_value_len(r: &mut R, big: bool) -> usize {
    if big {
        *pick(r, &[0usize, 0, 1, 1, 7, 7, 127, 128, 400, 400, 1100, 3000, 20000])
    } else {
        *pick(r, &[0usize, 0, 1, 1, 3, 7, 7, 20, 127, 128, 400])
    }
}

/// n entries, strictly ascending keys, of the given kind.
pub fn gen_entries(r: &mut R, kind: KeyKind, n: usize, big_values: bool) -> Vec<Entry> {
    let mut keys: Vec<Vec<u8>> = match kind {
        KeyKind::Alpha => {
            let mut all = alpha_strings(3);
            all.shuffle(r);
            all.truncate(n);
            all
        }
        KeyKind::Long => {
            let gap = *pick(r, &[1u32, 2, 3, 256]);
            (0..n as u32).map(|i| long_key(1 + i * gap)).collect()
        }
        KeyKind::Mixed => {
            let mut all = alpha_strings(2);
            all.shuffle(r);
            all.truncate(n / 2);
            let gap = 2u32;
            for i in 0..(n - all.len()) as u32 {
                all.push(long_key(1 + i * gap));
            }
            // a few extensions of stored keys (prefix chains across kinds)
            all
        }
        KeyKind::Counter => {
            let gap = *pick(r, &[1u32, 2, 5]);
            (0..n as u32).map(|i| (10 + i * gap).to_be_bytes().to_vec()).collect()
        }
    };
    keys.sort();
    keys.dedup();
    keys.into_iter()
        .enumerate()
        .map(|(i, k)| {
            let len = random_value_len(r, big_values);
            (k, value_for(i as u32 + 1, len))
        })
        .collect()
}

pub fn random_kind(r: &mut R) -> KeyKind {
    *pick(r, &[KeyKind::Alpha, KeyKind::Alpha, KeyKind::Long, KeyKind::Long, KeyKind::Mixed, KeyKind::Counter])
}

#[derive(Debug)]
pub struct WriteOutcome {
    /// "ok" | "err" | "panic" for the insert phase
    pub ins: String,
    /// "ok" | "err" | "panic" | "skipped" for into_inner
    pub fin: String,
    pub detail: String,
    pub bytes: Option<Vec<u8>>,
}

thread_local! {
    /// index of the running scenario (set by the dispatcher): some decisions that must not disturb
    /// the random stream of a scenario derive from it
    pub static SCN_IDX: std::cell::Cell<u64> = std::cell::Cell::new(0);
    /// whether the running family may read files written by the 0.4.7 writer (reader-side families)
    pub static ALLOW_FOREIGN: std::cell::Cell<bool> = std::cell::Cell::new(false);
}

/// The same content written by the 0.4.7 writer with the same configuration: a valid file of the
/// same format that the writer under test had no hand in (reader-side scenarios use it for a
/// fraction of their files, so that a reader that only copes with its own writer's habits shows).
/// None when 0.4.7 cannot write this configuration (framed Snappy, 255 levels, degenerate sizes).
pub fn write_file_foreign(cfg: &Cfg, entries: &[Entry]) -> Option<Vec<u8>> {
    if cfg.codec == 5 || cfg.levels >= 200 || cfg.interval == 0 || cfg.block_size > (1 << 30) || cfg.interval > (1 << 30) {
        return None;
    }
    let interval = std::num::NonZeroUsize::new(cfg.interval)?;
    std::panic::catch_unwind(std::panic::AssertUnwindSafe(|| {
        let mut b = grenad_0_4::Writer::builder();
        b.compression_type(codec04_of(cfg.codec))
            .compression_level(cfg.level)
            .block_size(cfg.block_size)
            .index_key_interval(interval)
            .index_levels(cfg.levels);
        let mut w = b.memory();
        for (k, v) in entries {
            w.insert(k, v).ok()?;
        }
        w.into_inner().ok()
    }))
    .ok()
    .flatten()
}

/// Writes the entries with the real grenad writer into a Vec<u8>; panics are data.
pub fn write_file(cfg: &Cfg, entries: &[Entry]) -> WriteOutcome {
    // the instrumented sink follows the write schedule of the scenario (whole buffers by default)
    // upper bound on the stream: every key can be repeated once per index level that really fills
    // (at most a handful), plus framing; 6x the payload + 4 MiB is far above any correct file
    let payload: usize = entries.iter().map(|(k, v)| k.len() + v.len() + 32).sum();
    let mut w = cfg.builder().build(crate::io::Sink::with_limit(payload.saturating_mul(6).saturating_add(4 << 20)));
    let mut detail = String::new();
    let r = std::panic::catch_unwind(std::panic::AssertUnwindSafe(|| {
        for (k, v) in entries {
            if let Err(e) = w.insert(k, v) {
                return Err(format!("{}", e));
            }
        }
        Ok(())
    }));
    let ins = match r {
        Ok(Ok(())) => "ok",
        Ok(Err(e)) => {
            detail = e;
            "err"
        }
        Err(e) => {
            detail = crate::util::panic_msg(e);
            "panic"
        }
    };
    if ins != "ok" {
        return WriteOutcome { ins: ins.into(), fin: "skipped".into(), detail, bytes: None };
    }
    let r = std::panic::catch_unwind(std::panic::AssertUnwindSafe(move || w.into_inner()));
    match r {
        Ok(Ok(sink)) => WriteOutcome { ins: "ok".into(), fin: "ok".into(), detail, bytes: Some(sink.data) },
        Ok(Err(e)) => WriteOutcome { ins: "ok".into(), fin: "err".into(), detail: format!("{}", e), bytes: None },
        Err(e) => WriteOutcome {
            ins: "ok".into(),
            fin: "panic".into(),
            detail: crate::util::panic_msg(e),
            bytes: None,
        },
    }
}

/// Re-encodes a V2 file written with index_levels = 0 as a version-1 file: the body is kept,
/// the 22-byte V2 trailer is replaced by an independently encoded 21-byte V1 trailer.
pub fn to_v1(v2: &[u8]) -> Vec<u8> {
    let n = v2.len();
    assert!(n >= 22);
    let t = &v2[n - 22..];
    assert_eq!(&t[18..22], &[0xC4, 0xD4, 0x23, 0x67]);
    assert_eq!(t[17], 0, "V1 has a single index level");
    let mut out = v2[..n - 22].to_vec();
    out.extend_from_slice(&t[0..8]); // root index offset, u64 LE
    out.push(t[8]); // codec id
    out.extend_from_slice(&t[9..17]); // entry count, u64 LE
    out.extend_from_slice(&[0x4C, 0x4D, 0x32, 0x76]); // 0x76324D4C LE
    out
}

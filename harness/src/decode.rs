//! Independent decoder of the grenad file format. Shares no code with grenad: it walks the
//! length-prefixed blocks sequentially, inflates them with the codec crates directly and parses
//! entries / offset table / count itself. It makes no judgement: the structure it emits is judged
//! by TLC against Layout.tla (contiguity, tree walk, last-key -> offset mapping, content, cut rule).
use serde_json::{json, Value};
use std::collections::HashMap;
use std::io::Read;
use std::sync::atomic::{AtomicBool, Ordering};

/// whether small blocks carry their raw bytes in the log (only the C09 runs ask for it: --raw)
pub static INCLUDE_RAW: AtomicBool = AtomicBool::new(false);

pub struct RawEntry {
    pub off: usize,
    pub size: usize,
    pub key: Vec<u8>,
    pub val: Vec<u8>,
}

pub struct RawBlock {
    pub off: u64,
    pub stored: u64,
    pub usize_: usize,
    pub payload: usize,
    pub table: Vec<u64>,
    pub count: u32,
    pub entries: Vec<RawEntry>,
    /// bytes of the payload that could not be parsed as entries (0 for a well-formed block)
    pub junk: usize,
    /// the uncompressed bytes of a small block (TLC parses them itself to cross-check this decoder)
    pub raw: Vec<u8>,
}

pub struct RawFile {
    pub size: usize,
    pub trailer: Vec<u8>,
    pub blocks: Vec<RawBlock>,
    /// bytes between the last complete block and the trailer (0 for a well-formed file)
    pub slack: usize,
    pub error: Option<String>,
}

fn inflate(codec: u8, data: &[u8]) -> Result<Vec<u8>, String> {
    let mut out = Vec::new();
    match codec {
        0 => out.extend_from_slice(data),
        1 => {
            out = snap::raw::Decoder::new().decompress_vec(data).map_err(|e| e.to_string())?;
        }
        2 => {
            flate2::read::ZlibDecoder::new(data).read_to_end(&mut out).map_err(|e| e.to_string())?;
        }
        3 => {
            lz4_flex::frame::FrameDecoder::new(data).read_to_end(&mut out).map_err(|e| e.to_string())?;
        }
        4 => {
            out = zstd::stream::decode_all(data).map_err(|e| e.to_string())?;
        }
        5 => {
            snap::read::FrameDecoder::new(data).read_to_end(&mut out).map_err(|e| e.to_string())?;
        }
        c => return Err(format!("unknown codec id {}", c)),
    }
    Ok(out)
}

/// LEB128, at most 5 bytes, little-endian 7-bit groups. Returns (value, bytes consumed).
fn leb128(data: &[u8]) -> Option<(u64, usize)> {
    let mut v: u64 = 0;
    for i in 0..5 {
        let b = *data.get(i)?;
        v |= ((b & 0x7f) as u64) << (7 * i);
        if b & 0x80 == 0 {
            return Some((v, i + 1));
        }
    }
    None
}

fn be64(b: &[u8]) -> u64 {
    let mut x = 0u64;
    for &y in b {
        x = (x << 8) | y as u64;
    }
    x
}

/// `trailer_len` is 22 for V2 files and 21 for V1 files; the codec id sits at byte 8 of both.
pub fn decode(bytes: &[u8], trailer_len: usize) -> RawFile {
    let size = bytes.len();
    let mut f = RawFile { size, trailer: Vec::new(), blocks: Vec::new(), slack: 0, error: None };
    if size < trailer_len {
        f.error = Some("shorter than a trailer".into());
        return f;
    }
    f.trailer = bytes[size - trailer_len..].to_vec();
    let codec = f.trailer[8];
    let body_end = size - trailer_len;
    let mut off = 0usize;
    while off < body_end {
        if off + 8 > body_end {
            break;
        }
        let stored = be64(&bytes[off..off + 8]);
        if stored > (body_end - off - 8) as u64 {
            break;
        }
        let raw = &bytes[off + 8..off + 8 + stored as usize];
        let data = match inflate(codec, raw) {
            Ok(d) => d,
            Err(e) => {
                f.error = Some(format!("block at {}: {}", off, e));
                break;
            }
        };
        let mut b = RawBlock {
            off: off as u64,
            stored,
            usize_: data.len(),
            payload: 0,
            table: Vec::new(),
            count: 0,
            entries: Vec::new(),
            junk: 0,
            raw: if INCLUDE_RAW.load(Ordering::Relaxed) && data.len() <= 1400 { data.clone() } else { Vec::new() },
        };
        if data.len() < 4 {
            f.error = Some(format!("block at {}: shorter than its count field", off));
            break;
        }
        b.count = be64(&data[data.len() - 4..]) as u32;
        let tbytes = b.count as usize * 8;
        if data.len() < 4 + tbytes {
            f.error = Some(format!("block at {}: offset table larger than the block", off));
            break;
        }
        b.payload = data.len() - 4 - tbytes;
        for i in 0..b.count as usize {
            b.table.push(be64(&data[b.payload + 8 * i..b.payload + 8 * i + 8]));
        }
        let mut p = 0usize;
        while p < b.payload {
            let Some((kl, a)) = leb128(&data[p..b.payload]) else { break };
            let Some((vl, c)) = leb128(&data[p + a..b.payload]) else { break };
            let start = p + a + c;
            let end = start + kl as usize + vl as usize;
            if end > b.payload {
                break;
            }
            b.entries.push(RawEntry {
                off: p,
                size: end - p,
                key: data[start..start + kl as usize].to_vec(),
                val: data[start + kl as usize..end].to_vec(),
            });
            p = end;
        }
        b.junk = b.payload - p;
        f.blocks.push(b);
        off += 8 + stored as usize;
    }
    f.slack = body_end - off;
    f
}

/// Emits the structure for TLC. Keys become dictionary ranks (`kid`, 0 if the key is not in the
/// dictionary); a value is named by `vm` = 1-based position of the inserted pair with exactly
/// these key and value bytes (0 if none) and by `v8` = its value as a big-endian u64 when it is
/// 8 bytes long and < 2^31 (-1 otherwise).
pub fn to_json(
    f: &RawFile,
    kid: &dyn Fn(&[u8]) -> i64,
    inserted: &HashMap<Vec<u8>, Vec<(usize, Vec<u8>)>>,
) -> Value {
    let blocks: Vec<Value> = f
        .blocks
        .iter()
        .map(|b| {
            let mut keys = Vec::new();
            let mut v8 = Vec::new();
            let mut vm = Vec::new();
            let mut eoffs = Vec::new();
            let mut esz = Vec::new();
            for e in &b.entries {
                keys.push(kid(&e.key));
                let x = if e.val.len() == 8 { be64(&e.val) } else { u64::MAX };
                v8.push(if x < (1 << 31) { x as i64 } else { -1 });
                let m = inserted
                    .get(&e.key)
                    .and_then(|l| l.iter().find(|(_, v)| *v == e.val).map(|(i, _)| *i as i64 + 1))
                    .unwrap_or(0);
                vm.push(m);
                eoffs.push(e.off);
                esz.push(e.size);
            }
            json!({"off": b.off, "stored": b.stored, "usize": b.usize_, "payload": b.payload,
                   "table": b.table, "count": b.count, "keys": keys, "v8": v8, "vm": vm,
                   "eoffs": eoffs, "esz": esz, "junk": b.junk, "raw": b.raw})
        })
        .collect();
    json!({"size": f.size, "trailer": f.trailer, "blocks": blocks, "slack": f.slack,
           "error": f.error.clone().unwrap_or_default()})
}

/// Largest stored (compressed) block of a file, without inflating anything: the walk over the
/// length prefixes only. Used for the byte-volume form of the C16 bound.
pub fn max_stored(bytes: &[u8], trailer_len: usize) -> u64 {
    if bytes.len() < trailer_len {
        return 0;
    }
    let body_end = bytes.len() - trailer_len;
    let (mut off, mut max) = (0usize, 0u64);
    while off + 8 <= body_end {
        let stored = be64(&bytes[off..off + 8]);
        if stored > (body_end - off - 8) as u64 {
            break;
        }
        max = max.max(stored);
        off += 8 + stored as usize;
    }
    max
}

//! The rest of the public surface (specification growth beyond the listed properties):
//! codec names, defaults, finish vs into_inner, accessors, fused and cloned iterators,
//! forwarding of merge functions through &MF and Either.
use crate::cursor::{probes_for, random_file_capped, Src};
use crate::files::*;
use crate::io::{digest, Sink};
use crate::merger::{token, Mf, Recorder};
use crate::util::*;
use either::Either;
use grenad::{CompressionType, Merger, Reader, Writer};
use rand::Rng;
use serde_json::json;
use std::cell::RefCell;
use std::ops::Bound;
use std::rc::Rc;
use std::str::FromStr;

pub fn scn_api(out: &mut TraceOut, r: &mut R, idx: u64, heavy: bool) {
    // 1. codec names
    for name in ["snappy-pre-0.5", "zlib", "lz4", "zstd", "snappy", "none", "", "Snappy", "snappy ", "gzip", "zstd\0"] {
        let res = CompressionType::from_str(name).map(|c| c as u8 as i64).unwrap_or(-1);
        out.ev(json!({"ev": "FromStr", "name": name, "res": res}));
    }
    let (cfg, entries) = random_file_capped(r, idx, heavy, 5000);
    // 2. defaults: Writer::memory() == builder with the documented defaults
    {
        let mut a = Writer::memory();
        let dcfg = Cfg { codec: 0, level: 0, block_size: 8192, interval: 8, levels: 0 };
        let mut b = dcfg.builder().memory();
        for (k, v) in &entries {
            a.insert(k, v).unwrap();
            b.insert(k, v).unwrap();
        }
        let (a, b) = (a.into_inner().unwrap(), b.into_inner().unwrap());
        out.ev(json!({"ev": "Defaults", "implicit": [a.len(), digest(&a).0, digest(&a).1], "explicit": [b.len(), digest(&b).0, digest(&b).1],
                      "cfg": {"codec": 0, "block_size": 8192, "interval": 8, "levels": 0}}));
    }
    // 3. finish() vs into_inner(): the sink is shared to see what finish wrote
    {
        struct Shared(Rc<RefCell<Vec<u8>>>);
        impl std::io::Write for Shared {
            fn write(&mut self, b: &[u8]) -> std::io::Result<usize> {
                self.0.borrow_mut().extend_from_slice(b);
                Ok(b.len())
            }
            fn flush(&mut self) -> std::io::Result<()> {
                Ok(())
            }
        }
        let buf = Rc::new(RefCell::new(Vec::new()));
        let mut w1 = cfg.builder().build(Shared(buf.clone()));
        let mut w2 = cfg.builder().build(Sink::new());
        for (k, v) in &entries {
            w1.insert(k, v).unwrap();
            w2.insert(k, v).unwrap();
        }
        let r1 = w1.finish();
        let b2 = w2.into_inner().map(|s| s.data).unwrap_or_default();
        let b1 = buf.borrow();
        out.ev(json!({"ev": "Finish", "res": if r1.is_ok() { "ok" } else { "err" },
                      "via_finish": [b1.len(), digest(&b1).0, digest(&b1).1], "via_into_inner": [b2.len(), digest(&b2).0, digest(&b2).1]}));
    }
    let Some(bytes) = write_file(&cfg, &entries).bytes else { return };
    let data = Rc::new(bytes);
    // 4. accessors
    {
        let reader = Reader::new(Src::new(data.clone())).unwrap();
        let (len, is_empty) = (reader.len(), reader.is_empty());
        let cursor = reader.into_cursor().unwrap();
        let len_via_cursor = cursor.len(); // Deref<Target = Reader>
        let reader = cursor.into_reader();
        let len2 = reader.len();
        let src = reader.into_inner();
        out.ev(json!({"ev": "Accessors", "n": entries.len(), "len": len, "is_empty": is_empty, "len_via_cursor": len_via_cursor,
                      "len_after_into_reader": len2, "source_back": src.data.len(), "size": data.len()}));
    }
    let probes = probes_for(&entries);
    let content = crate::cursor::Content::list(entries.clone());
    let name = |kv: Option<(&[u8], &[u8])>| -> i64 { kv.map(|(k, v)| content.name(k, v)).unwrap_or(0) };
    // 5. fused iterators: keep calling next() after the first None
    for _ in 0..6 {
        let a = pick(r, &probes).clone();
        let b = pick(r, &probes).clone();
        let range = (Bound::Included(a.clone()), Bound::Excluded(b));
        let mut after = Vec::new();
        match r.gen_range(0..4) {
            0 => {
                let mut it = Reader::new(Src::new(data.clone())).unwrap().into_range_iter(range).unwrap();
                while name(it.next().unwrap()) != 0 {}
                for _ in 0..4 {
                    after.push(name(it.next().unwrap()));
                }
            }
            1 => {
                let mut it = Reader::new(Src::new(data.clone())).unwrap().into_rev_range_iter(range).unwrap();
                while name(it.next().unwrap()) != 0 {}
                for _ in 0..4 {
                    after.push(name(it.next().unwrap()));
                }
            }
            2 => {
                let mut it = Reader::new(Src::new(data.clone())).unwrap().into_prefix_iter(a[..a.len().min(1)].to_vec()).unwrap();
                while name(it.next().unwrap()) != 0 {}
                for _ in 0..4 {
                    after.push(name(it.next().unwrap()));
                }
            }
            _ => {
                let mut it = Reader::new(Src::new(data.clone())).unwrap().into_rev_prefix_iter(a[..a.len().min(1)].to_vec()).unwrap();
                while name(it.next().unwrap()) != 0 {}
                for _ in 0..4 {
                    after.push(name(it.next().unwrap()));
                }
            }
        }
        out.ev(json!({"ev": "Fused", "after": after, "n": entries.len()}));
    }
    // 6. cloned iterators continue independently
    for _ in 0..4 {
        let a = pick(r, &probes).clone();
        let range = (Bound::Included(a), Bound::<Vec<u8>>::Unbounded);
        let mut full = Vec::new();
        let mut it = Reader::new(Src::new(data.clone())).unwrap().into_range_iter(range.clone()).unwrap();
        loop {
            let x = name(it.next().unwrap());
            if x == 0 {
                break;
            }
            full.push(x);
        }
        let j = if full.is_empty() { 0 } else { r.gen_range(0..=full.len().min(6)) };
        let mut orig = Reader::new(Src::new(data.clone())).unwrap().into_range_iter(range).unwrap();
        for _ in 0..j {
            orig.next().unwrap();
        }
        let mut cl = orig.clone();
        let mut from_clone = Vec::new();
        let mut from_orig = Vec::new();
        // interleave the two
        loop {
            let x = name(cl.next().unwrap());
            let y = name(orig.next().unwrap());
            if x != 0 {
                from_clone.push(x);
            }
            if y != 0 {
                from_orig.push(y);
            }
            if x == 0 && y == 0 {
                break;
            }
        }
        out.ev(json!({"ev": "IterClone", "full": full, "j": j, "from_clone": from_clone, "from_orig": from_orig}));
    }
    // 7. merge functions are forwarded through &MF and Either
    {
        let keys: Vec<Vec<u8>> = (0..12u32).map(|i| i.to_be_bytes().to_vec()).collect();
        let mut files = Vec::new();
        for s in 0..3usize {
            let es: Vec<Entry> = keys.iter().filter(|_| r.gen_bool(0.7)).enumerate().map(|(p, k)| (k.clone(), token(s + 1, p + 1, 7))).collect();
            files.push(Rc::new(write_file(&Cfg::default_small(), &es).bytes.unwrap()));
        }
        let run = |which: u8| -> Vec<u32> {
            let rec = Recorder { mf: Mf::Concat, calls: RefCell::new(Vec::new()) };
            let cursors: Vec<_> = files.iter().map(|f| Reader::new(Src::new(f.clone())).unwrap().into_cursor().unwrap()).collect();
            let mut outv = Vec::new();
            macro_rules! drain {
                ($mf:expr) => {{
                    let mut b = Merger::builder($mf);
                    b.extend(cursors);
                    let mut it = b.build().into_stream_merger_iter().unwrap();
                    while let Some((k, v)) = it.next().unwrap() {
                        outv.extend_from_slice(k);
                        outv.extend_from_slice(v);
                    }
                }};
            }
            match which {
                0 => drain!(rec),
                1 => drain!(&rec),
                2 => drain!(Either::<Recorder, Recorder>::Left(rec)),
                _ => drain!(Either::<Recorder, Recorder>::Right(rec)),
            }
            let d = digest(&outv);
            vec![outv.len() as u32, d.0, d.1]
        };
        out.ev(json!({"ev": "Forward", "direct": run(0), "by_ref": run(1), "either_left": run(2), "either_right": run(3)}));
    }
}

//! C14: the length codec through hook H3 (full 2^32 sweep + boundary windows) and through the
//! public API (entries whose key / value lengths sit on the framing boundaries).
use crate::util::*;
use grenad::verif::{varint_decode32, varint_encode32};
use rand::Rng;
use rayon::prelude::*;
use serde_json::json;
use std::panic::{catch_unwind, AssertUnwindSafe};

fn groups(n: u32) -> [u32; 5] {
    [n & 0x7f, (n >> 7) & 0x7f, (n >> 14) & 0x7f, (n >> 21) & 0x7f, n >> 28]
}

const TRAILS: [&[u8]; 5] = [&[], &[0x00], &[0x80], &[0xFF, 0xFF, 0xFF, 0xFF, 0xFF], &[0x7F, 0x03]];

/// The C14 predicate on the real code for one value: true if it holds for every trailer.
fn holds(n: u32) -> bool {
    let mut buf = [0u8; 10];
    let enc = varint_encode32(&mut buf, n);
    let len = enc.len();
    if len < 1 || len > 5 {
        return false;
    }
    let mut data = [0u8; 16];
    data[..len].copy_from_slice(enc);
    for t in TRAILS.iter() {
        data[len..len + t.len()].copy_from_slice(t);
        let mut val = 0u32;
        let used = varint_decode32(&data[..len + t.len()], &mut val);
        if val != n || used != len {
            return false;
        }
    }
    true
}

/// All 2^32 values, one event per 2^24-sized chunk.
pub fn scn_sweep(out: &mut TraceOut) {
    let res: Vec<(u32, u64, i64)> = (0u32..256)
        .into_par_iter()
        .map(|chunk| {
            let r = catch_unwind(AssertUnwindSafe(|| {
                let base = chunk << 24;
                let mut failures = 0u64;
                let mut first: i64 = -1;
                for i in 0..(1u32 << 24) {
                    let n = base | i;
                    if !holds(n) {
                        failures += 1;
                        if first < 0 {
                            first = n as i64;
                        }
                    }
                }
                (failures, first)
            }));
            match r {
                Ok((f, first)) => (chunk, f, first),
                Err(_) => (chunk, 1 << 24, -2),
            }
        })
        .collect();
    for (chunk, failures, first) in res {
        out.ev(json!({"ev": "Sweep", "chunk": chunk, "n": 1u32 << 24, "failures": failures,
                      "first": if first >= 0 { groups(first as u32).to_vec() } else { vec![] }, "panic": first == -2}));
    }
    out.ev(json!({"ev": "SweepEnd"}));
}

fn rt_event(out: &mut TraceOut, n: u32, trail: &[u8]) {
    let r = catch_unwind(AssertUnwindSafe(|| {
        let mut buf = [0u8; 10];
        let enc = varint_encode32(&mut buf, n).to_vec();
        let mut data = enc.clone();
        data.extend_from_slice(trail);
        let mut val = 0u32;
        let used = varint_decode32(&data, &mut val);
        (enc, val, used)
    }));
    match r {
        Ok((enc, val, used)) => out.ev(json!({"ev": "RT", "g": groups(n), "bytes": enc, "trail": trail,
                                              "dg": groups(val), "consumed": used})),
        Err(e) => out.ev(json!({"ev": "RT", "g": groups(n), "bytes": [], "trail": trail, "dg": [], "consumed": -1,
                                "detail": panic_msg(e)})),
    }
}

/// Windows around every framing boundary, the ends of the domain, and random values.
pub fn scn_windows(out: &mut TraceOut, r: &mut R, heavy: bool) {
    let w: i64 = if heavy { 2000 } else { 300 };
    let centers: [i64; 7] = [0, 1 << 7, 1 << 14, 1 << 21, 1 << 28, 1 << 31, (1 << 32) - 1];
    for c in centers {
        for d in -w..=w {
            let n = c + d;
            if n < 0 || n > u32::MAX as i64 {
                continue;
            }
            let trail = TRAILS[(n.rem_euclid(5)) as usize];
            rt_event(out, n as u32, trail);
        }
    }
    for _ in 0..(if heavy { 100_000 } else { 5000 }) {
        let n: u32 = match r.gen_range(0..3) {
            0 => r.gen(),
            1 => 1u32 << r.gen_range(0..32),
            _ => (1u32 << r.gen_range(0..32)).wrapping_sub(r.gen_range(0..3)),
        };
        let t: Vec<u8> = (0..r.gen_range(0..6)).map(|_| r.gen()).collect();
        rt_event(out, n, &t);
    }
}

//! Environment instrumentation shared by every user-supplied component the harness hands to
//! grenad (sink, source, chunk storage, chunk creator, merge function): I/O schedules (C11:
//! how many bytes a call accepts / returns, interruptions) and single fault injection (C12: the
//! k-th call of one component kind fails). Thread-local: scenarios are single-threaded.
use rand::rngs::StdRng;
use rand::{Rng, SeedableRng};
use std::cell::RefCell;
use std::collections::BTreeMap;
use std::io;

#[derive(Clone, Debug, PartialEq)]
pub enum Sched {
    /// serve every call fully
    Whole,
    /// one byte per call
    OneByte,
    /// all but the last byte (at least one)
    LenMinus1,
    /// `Interrupted` before every successful call
    InterruptFirst,
    /// one byte per call, an interruption before every byte
    OneByteIntr,
    /// random split points and interruptions
    Random(u64),
}

impl Sched {
    pub fn parse(s: &str) -> Sched {
        match s {
            "whole" => Sched::Whole,
            "one" => Sched::OneByte,
            "lenm1" => Sched::LenMinus1,
            "intr" => Sched::InterruptFirst,
            "oneintr" => Sched::OneByteIntr,
            x if x.starts_with("rand") => Sched::Random(x[4..].parse().unwrap_or(1)),
            _ => panic!("unknown schedule {}", s),
        }
    }
}

#[derive(Clone, Debug)]
pub struct Fault {
    pub comp: String,
    pub k: u64,
    /// io::ErrorKind name ("other", "eof", "denied"), "zero" (Ok(0) from write),
    /// "merge" (user merge error), "create:<variant>" for the chunk creator
    pub kind: String,
}

pub struct Policy {
    pub read: Sched,
    pub write: Sched,
    pub fault: Option<Fault>,
    pub fired: bool,
    pub counts: BTreeMap<String, u64>,
    rng: StdRng,
    pending_intr: bool,
    pub interrupts: u64,
    pub short_calls: u64,
    /// calls served since the last reset: a runaway retry loop in the code under test is cut off
    pub served: u64,
}

impl Policy {
    pub fn new() -> Policy {
        Policy {
            read: Sched::Whole,
            write: Sched::Whole,
            fault: None,
            fired: false,
            counts: BTreeMap::new(),
            rng: StdRng::seed_from_u64(0),
            pending_intr: true,
            interrupts: 0,
            short_calls: 0,
            served: 0,
        }
    }
}

thread_local! {
    pub static POLICY: RefCell<Policy> = RefCell::new(Policy::new());
}

pub static MAX_SERVED: std::sync::atomic::AtomicU64 = std::sync::atomic::AtomicU64::new(0);

pub fn reset(read: Sched, write: Sched, fault: Option<Fault>) {
    POLICY.with(|p| {
        let mut p = p.borrow_mut();
        MAX_SERVED.fetch_max(p.served, std::sync::atomic::Ordering::Relaxed);
        let seed = match (&read, &write) {
            (Sched::Random(a), Sched::Random(b)) => a ^ (b << 20),
            (Sched::Random(a), _) | (_, Sched::Random(a)) => *a,
            _ => 0,
        };
        *p = Policy::new();
        p.rng = StdRng::seed_from_u64(seed);
        p.read = read;
        p.write = write;
        p.fault = fault;
    })
}

thread_local! {
    /// absolute seeks on instrumented sources (= block loads), for the per-call bound of C16
    pub static BLOCK_LOADS: std::cell::Cell<u64> = std::cell::Cell::new(0);
}
pub fn note_block_load() {
    BLOCK_LOADS.with(|c| c.set(c.get() + 1));
}
pub fn block_loads() -> u64 {
    BLOCK_LOADS.with(|c| c.get())
}

pub fn fired() -> bool {
    POLICY.with(|p| p.borrow().fired)
}

pub fn counts() -> BTreeMap<String, u64> {
    POLICY.with(|p| p.borrow().counts.clone())
}

pub fn io_stats() -> (u64, u64) {
    POLICY.with(|p| (p.borrow().interrupts, p.borrow().short_calls))
}

fn kind_of(name: &str) -> io::ErrorKind {
    match name {
        "eof" => io::ErrorKind::UnexpectedEof,
        "denied" => io::ErrorKind::PermissionDenied,
        "timeout" => io::ErrorKind::TimedOut,
        "wouldblock" => io::ErrorKind::WouldBlock,
        _ => io::ErrorKind::Other,
    }
}

/// Registers a call of component `comp`; returns the fault kind if this very call must fail.
pub fn on_call(comp: &str) -> Option<String> {
    POLICY.with(|p| {
        let mut p = p.borrow_mut();
        let c = p.counts.entry(comp.to_string()).or_insert(0);
        *c += 1;
        let n = *c;
        match &p.fault {
            Some(f) if f.comp == comp && f.k == n => {
                let kind = f.kind.clone();
                p.fired = true;
                Some(kind)
            }
            _ => None,
        }
    })
}

/// Arms a one-off fault in the middle of a scenario: the `delta`-th call of `comp` from now on fails
/// (once); everything before and after it is served normally.
pub fn arm(comp: &str, delta: u64, kind: &str) {
    POLICY.with(|p| {
        let mut p = p.borrow_mut();
        let n = p.counts.get(comp).copied().unwrap_or(0);
        p.fault = Some(Fault { comp: comp.to_string(), k: n + delta, kind: kind.to_string() });
        p.fired = false;
    })
}
/// Withdraws a fault that has not fired.
pub fn disarm() {
    POLICY.with(|p| {
        let mut p = p.borrow_mut();
        p.fault = None;
        p.fired = false;
    })
}

pub fn io_error(kind: &str) -> io::Error {
    io::Error::new(kind_of(kind), format!("injected fault: {}", kind))
}

/// How a read/write call of `len` > 0 bytes is served under the schedule: Err(Interrupted) or
/// the number of bytes (1..=len).
pub fn plan(is_read: bool, len: usize) -> Result<usize, io::Error> {
    POLICY.with(|p| {
        let mut p = p.borrow_mut();
        p.served += 1;
        let sched = if is_read { p.read.clone() } else { p.write.clone() };
        let n = match sched {
            Sched::Whole => len,
            Sched::OneByte => 1,
            Sched::LenMinus1 => (len - 1).max(1),
            Sched::InterruptFirst => {
                if p.pending_intr {
                    p.pending_intr = false;
                    p.interrupts += 1;
                    return Err(io::Error::new(io::ErrorKind::Interrupted, "scheduled interruption"));
                }
                p.pending_intr = true;
                len
            }
            Sched::OneByteIntr => {
                if p.pending_intr {
                    p.pending_intr = false;
                    p.interrupts += 1;
                    return Err(io::Error::new(io::ErrorKind::Interrupted, "scheduled interruption"));
                }
                p.pending_intr = true;
                1
            }
            Sched::Random(_) => {
                if p.rng.gen_ratio(1, 5) {
                    p.interrupts += 1;
                    return Err(io::Error::new(io::ErrorKind::Interrupted, "scheduled interruption"));
                }
                match p.rng.gen_range(0..4) {
                    0 => 1,
                    1 => len,
                    2 => (len - 1).max(1),
                    _ => p.rng.gen_range(1..=len),
                }
            }
        };
        if n < len {
            p.short_calls += 1;
        }
        Ok(n)
    })
}

/// Instrumented sink: collects the stream it accepts.
pub struct Sink {
    pub data: Vec<u8>,
    pub writes: u64,
    /// watchdog: no correct writer can hand more bytes than this to the sink for the entries it was
    /// given; a retry loop in the code under test that re-sends data forever is ended with an error
    pub limit: usize,
}

impl Sink {
    pub fn new() -> Sink {
        Sink { data: Vec::new(), writes: 0, limit: usize::MAX }
    }
    pub fn with_limit(limit: usize) -> Sink {
        Sink { data: Vec::new(), writes: 0, limit }
    }
}

impl io::Write for Sink {
    fn write(&mut self, buf: &[u8]) -> io::Result<usize> {
        if let Some(kind) = on_call("sink.write") {
            if kind == "zero" {
                return Ok(0);
            }
            return Err(io_error(&kind));
        }
        if buf.is_empty() {
            return Ok(0);
        }
        let n = plan(false, buf.len())?;
        if self.data.len() + n > self.limit {
            return Err(io::Error::new(io::ErrorKind::Other, "watchdog: the stream exceeds any possible size of this file (runaway write loop)"));
        }
        self.data.extend_from_slice(&buf[..n]);
        self.writes += 1;
        Ok(n)
    }
    fn flush(&mut self) -> io::Result<()> {
        if let Some(kind) = on_call("sink.flush") {
            return Err(io_error(&kind));
        }
        Ok(())
    }
}

/// Two independent 31-bit digests of a byte stream (compared by TLC as integers).
pub fn digest(data: &[u8]) -> (u32, u32) {
    let mut a: u32 = 0x811C9DC5;
    let mut b: u64 = 1469598103934665603;
    for &x in data {
        a = (a ^ x as u32).wrapping_mul(16777619);
        b = (b ^ x as u64).wrapping_mul(1099511628211);
    }
    (a & 0x7fff_ffff, ((b >> 17) as u32) & 0x7fff_ffff)
}

//! C17 (partial): allocation-protocol monitor. Every Rust allocation of the harness process
//! (hence every allocation grenad makes) gets a small header remembering its layout and a
//! trailing canary; `dealloc` checks that the layout it is given equals the one the block was
//! allocated with, that the canaries are intact and that the block was not freed before.
//! This is environment instrumentation (like the instrumented sink); it sees writes past either
//! end of a heap block, mismatched layouts, double frees and leaks -- not stray reads, dangling
//! references or provenance violations (that needs Miri / a sanitizer, see DESIGN.md C17).
use std::alloc::{GlobalAlloc, Layout, System};
use std::sync::atomic::{AtomicI64, AtomicU64, Ordering::Relaxed};

pub struct Monitor;

const MAGIC: u64 = 0x6772_656E_6164_4F4B; // live block
const DEAD: u64 = 0x6772_656E_6164_4445; // freed block
const CANARY: u64 = 0xC0FF_EE11_DEAD_BEA7;
const HDR: usize = 32;

pub static ALLOCS: AtomicU64 = AtomicU64::new(0);
pub static MISMATCH: AtomicU64 = AtomicU64::new(0);
pub static MISMATCH_ALLOC_SIZE: AtomicU64 = AtomicU64::new(0);
pub static MISMATCH_FREE_SIZE: AtomicU64 = AtomicU64::new(0);
pub static GUARD_BROKEN: AtomicU64 = AtomicU64::new(0);
pub static DOUBLE_FREE: AtomicU64 = AtomicU64::new(0);
pub static BAD_MAGIC: AtomicU64 = AtomicU64::new(0);
/// live blocks of the class the sorter's entry buffer belongs to (align 8, size a multiple of 16, >= 32)
pub static LIVE_CLASS: AtomicI64 = AtomicI64::new(0);
pub static LIVE_ALL: AtomicI64 = AtomicI64::new(0);
/// fault injection: the next allocation of exactly this size with align 8 fails (returns null); 0 = off
pub static FAIL_EXACT: AtomicU64 = AtomicU64::new(0);
pub static FAILED: AtomicU64 = AtomicU64::new(0);

fn hdr_for(align: usize) -> usize {
    if align > HDR {
        align
    } else {
        HDR
    }
}

fn in_class(size: usize, align: usize) -> bool {
    align == 8 && size >= 32 && size % 16 == 0
}

unsafe impl GlobalAlloc for Monitor {
    unsafe fn alloc(&self, l: Layout) -> *mut u8 {
        let fail = FAIL_EXACT.load(Relaxed);
        if fail != 0 && l.align() == 8 && l.size() as u64 == fail {
            FAIL_EXACT.store(0, Relaxed);
            FAILED.fetch_add(1, Relaxed);
            return std::ptr::null_mut();
        }
        let align = l.align().max(16);
        let hdr = hdr_for(align);
        let total = hdr + l.size() + 8;
        let base = System.alloc(Layout::from_size_align_unchecked(total, align));
        if base.is_null() {
            return base;
        }
        let user = base.add(hdr);
        (user.sub(24) as *mut u64).write_unaligned(l.size() as u64);
        (user.sub(16) as *mut u64).write_unaligned(l.align() as u64);
        (user.sub(8) as *mut u64).write_unaligned(MAGIC);
        (user.add(l.size()) as *mut u64).write_unaligned(CANARY);
        ALLOCS.fetch_add(1, Relaxed);
        LIVE_ALL.fetch_add(1, Relaxed);
        if in_class(l.size(), l.align()) {
            LIVE_CLASS.fetch_add(1, Relaxed);
        }
        user
    }

    unsafe fn dealloc(&self, p: *mut u8, l: Layout) {
        let size = (p.sub(24) as *const u64).read_unaligned() as usize;
        let align = (p.sub(16) as *const u64).read_unaligned() as usize;
        let magic = (p.sub(8) as *const u64).read_unaligned();
        if magic == DEAD {
            DOUBLE_FREE.fetch_add(1, Relaxed);
            return;
        }
        if magic != MAGIC {
            // the word in front of the block was overwritten (or this is not one of our blocks):
            // the real layout is unknown, so the block is leaked rather than freed wrongly
            BAD_MAGIC.fetch_add(1, Relaxed);
            return;
        }
        if size != l.size() || align != l.align() {
            if MISMATCH.fetch_add(1, Relaxed) == 0 {
                MISMATCH_ALLOC_SIZE.store(size as u64, Relaxed);
                MISMATCH_FREE_SIZE.store(l.size() as u64, Relaxed);
            }
        }
        if (p.add(size) as *const u64).read_unaligned() != CANARY {
            GUARD_BROKEN.fetch_add(1, Relaxed);
        }
        (p.sub(8) as *mut u64).write_unaligned(DEAD);
        // poison: a read through a dangling reference sees 0xDD bytes instead of plausible data
        std::ptr::write_bytes(p, 0xDD, size);
        LIVE_ALL.fetch_sub(1, Relaxed);
        if in_class(size, align) {
            LIVE_CLASS.fetch_sub(1, Relaxed);
        }
        let a = align.max(16);
        let hdr = hdr_for(a);
        System.dealloc(p.sub(hdr), Layout::from_size_align_unchecked(hdr + size + 8, a));
    }
}

#[derive(Clone, Copy, Debug, Default)]
pub struct Snapshot {
    pub allocs: u64,
    pub mismatch: u64,
    pub guard: u64,
    pub double_free: u64,
    pub bad_magic: u64,
    pub live_class: i64,
    pub live_all: i64,
}

pub fn snapshot() -> Snapshot {
    Snapshot {
        allocs: ALLOCS.load(Relaxed),
        mismatch: MISMATCH.load(Relaxed),
        guard: GUARD_BROKEN.load(Relaxed),
        double_free: DOUBLE_FREE.load(Relaxed),
        bad_magic: BAD_MAGIC.load(Relaxed),
        live_class: LIVE_CLASS.load(Relaxed),
        live_all: LIVE_ALL.load(Relaxed),
    }
}

pub fn first_mismatch() -> (u64, u64) {
    (MISMATCH_ALLOC_SIZE.load(Relaxed), MISMATCH_FREE_SIZE.load(Relaxed))
}

//! Layout scenarios: the bytes of finished files, recovered by the independent decoder, are
//! logged for TLC to judge (C09 format + 0.4.7 interoperability, C15 cut rule, C18 ordering).
use crate::cursor::random_file;
use crate::decode;
use crate::files::*;
use crate::util::*;
use rand::Rng;
use serde_json::{json, Value};
use std::collections::HashMap;
use std::io::Cursor;
use std::panic::{catch_unwind, AssertUnwindSafe};

fn inserted_map(entries: &[Entry]) -> HashMap<Vec<u8>, Vec<(usize, Vec<u8>)>> {
    let mut m: HashMap<Vec<u8>, Vec<(usize, Vec<u8>)>> = HashMap::new();
    for (i, (k, v)) in entries.iter().enumerate() {
        m.entry(k.clone()).or_default().push((i, v.clone()));
    }
    m
}

/// Writes `entries` in the given order with the real writer, decodes the bytes independently
/// and logs Dict + Wrote. Returns the bytes when the writer finished.
pub fn write_and_log(out: &mut TraceOut, cfg: &Cfg, entries: &[Entry]) -> Option<Vec<u8>> {
    let dict = Dict::build(entries.iter().map(|(k, _)| k.clone()));
    out.ev(dict.event());
    let outcome = write_file(cfg, entries);
    let ins: Vec<i64> = entries.iter().map(|(k, _)| dict.id(k)).collect();
    let file: Value = match &outcome.bytes {
        Some(b) => {
            let raw = decode::decode(b, 22);
            let kid = |k: &[u8]| -> i64 {
                match dict.strs.binary_search_by(|x| x.as_slice().cmp(k)) {
                    Ok(i) => i as i64 + 1,
                    Err(_) => 0,
                }
            };
            decode::to_json(&raw, &kid, &inserted_map(entries))
        }
        None => json!({"size": 0, "trailer": [], "blocks": [], "slack": 0, "error": "not finished"}),
    };
    out.ev(json!({"ev": "Wrote", "codec": cfg.codec, "levels": cfg.levels, "bs": cfg.logged_block_size(),
        "k": cfg.interval.min(1 << 30), "level": cfg.level, "inserts": ins, "ins": outcome.ins, "fin": outcome.fin,
        "detail": outcome.detail, "file": file}));
    outcome.bytes
}

/// Names an entry read back by another implementation: position of the inserted pair, or -1.
fn name(entries: &[Entry], idx: &HashMap<&[u8], usize>, k: &[u8], v: &[u8]) -> i64 {
    match idx.get(k) {
        Some(&i) if entries[i].1 == v => i as i64 + 1,
        _ => -1,
    }
}

/// Reads `bytes` with the frozen grenad 0.4.7 reader: len, forward scan, backward scan.
fn read_with_04(out: &mut TraceOut, bytes: &[u8], entries: &[Entry], dir: &str) {
    let idx: HashMap<&[u8], usize> = entries.iter().enumerate().map(|(i, (k, _))| (k.as_slice(), i)).collect();
    let r = catch_unwind(AssertUnwindSafe(|| -> Result<(u64, Vec<i64>, Vec<i64>), String> {
        let reader = grenad_0_4::Reader::new(Cursor::new(bytes)).map_err(|e| e.to_string())?;
        let len = reader.len();
        let mut c = reader.into_cursor().map_err(|e| e.to_string())?;
        let mut fwd = Vec::new();
        while let Some((k, v)) = c.move_on_next().map_err(|e| e.to_string())? {
            fwd.push(name(entries, &idx, k, v));
            if fwd.len() > entries.len() + 2 {
                break;
            }
        }
        c.reset();
        let mut bwd = Vec::new();
        while let Some((k, v)) = c.move_on_prev().map_err(|e| e.to_string())? {
            bwd.push(name(entries, &idx, k, v));
            if bwd.len() > entries.len() + 2 {
                break;
            }
        }
        Ok((len, fwd, bwd))
    }));
    log_interop(out, r, dir);
}

/// Reads `bytes` with the current reader.
fn read_with_current(out: &mut TraceOut, bytes: &[u8], entries: &[Entry], dir: &str) {
    let idx: HashMap<&[u8], usize> = entries.iter().enumerate().map(|(i, (k, _))| (k.as_slice(), i)).collect();
    let r = catch_unwind(AssertUnwindSafe(|| -> Result<(u64, Vec<i64>, Vec<i64>), String> {
        let reader = grenad::Reader::new(Cursor::new(bytes)).map_err(|e| e.to_string())?;
        let len = reader.len();
        let mut c = reader.into_cursor().map_err(|e| e.to_string())?;
        let mut fwd = Vec::new();
        while let Some((k, v)) = c.move_on_next().map_err(|e| e.to_string())? {
            fwd.push(name(entries, &idx, k, v));
            if fwd.len() > entries.len() + 2 {
                break;
            }
        }
        c.reset();
        let mut bwd = Vec::new();
        while let Some((k, v)) = c.move_on_prev().map_err(|e| e.to_string())? {
            bwd.push(name(entries, &idx, k, v));
            if bwd.len() > entries.len() + 2 {
                break;
            }
        }
        Ok((len, fwd, bwd))
    }));
    log_interop(out, r, dir);
}

fn log_interop(
    out: &mut TraceOut,
    r: std::thread::Result<Result<(u64, Vec<i64>, Vec<i64>), String>>,
    dir: &str,
) {
    match r {
        Ok(Ok((len, fwd, bwd))) => {
            out.ev(json!({"ev": "Interop", "dir": dir, "res": "ok", "len": len, "fwd": fwd, "bwd": bwd}))
        }
        Ok(Err(e)) => out.ev(json!({"ev": "Interop", "dir": dir, "res": "err", "detail": e, "len": 0, "fwd": [], "bwd": []})),
        Err(e) => out.ev(json!({"ev": "Interop", "dir": dir, "res": "panic", "detail": panic_msg(e), "len": 0, "fwd": [], "bwd": []})),
    }
}

/// C09: file family -> decoded layout; the same bytes through the 0.4.7 reader; the same content
/// written by the 0.4.7 writer and read by the current reader.
pub fn scn_format(out: &mut TraceOut, r: &mut R, idx: u64, heavy: bool) {
    let (cfg, entries) = random_file(r, idx, heavy);
    let Some(bytes) = write_and_log(out, &cfg, &entries) else { return };
    // SnappyPre05 (id 1) is what 0.4.7 calls Snappy; the new framed Snappy (id 5) is unknown to it.
    if cfg.codec != 5 {
        read_with_04(out, &bytes, &entries, "current->0.4.7");
    }
    if cfg.codec != 5 {
        // the 0.4.7 writer with the same configuration
        let old = catch_unwind(AssertUnwindSafe(|| {
            let mut b = grenad_0_4::Writer::builder();
            b.compression_type(codec04_of(cfg.codec))
                .compression_level(cfg.level)
                .block_size(cfg.block_size)
                .index_key_interval(std::num::NonZeroUsize::new(cfg.interval).unwrap())
                .index_levels(cfg.levels);
            let mut w = b.memory();
            for (k, v) in &entries {
                w.insert(k, v).unwrap();
            }
            w.into_inner().unwrap()
        }));
        // 0.4.7 itself overflows on 255 levels in checked builds; that is not this tree's business
        if let Ok(old_bytes) = old {
            read_with_current(out, &old_bytes, &entries, "0.4.7->current");
        }
    }
}

/// Entry sizes engineered so that block size estimates land on B-1, B and B+1 exactly,
/// for data blocks and for index blocks at depth >= 2.
pub fn cut_file(r: &mut R, idx: u64) -> (Cfg, Vec<Entry>) {
    let b_eff = *pick(r, &[1024usize, 1024, 1500, 2000, 4096]);
    let interval = *pick(r, &[1usize, 2, 3, 8, 8, 1000]);
    let levels = *pick(r, &[0u8, 2, 2, 3, 3, 4]);
    let cfg = Cfg {
        codec: *pick(r, &[0u8, 0, 5]),
        level: 0,
        block_size: if b_eff == 1024 { *pick(r, &[0usize, 1, 1024]) } else { b_eff },
        interval,
        levels,
    };
    // framed size of an entry with key length kl (< 128 .. 16383) and value length vl
    let fl = |n: usize| if n < 128 { 1 } else if n < 16384 { 2 } else { 3 };
    let size_of = |n: usize, e: usize| n * e + 8 * ((n + interval - 1) / interval).max(1) + 4;
    if idx % 7 == 5 {
        // lengths framed on three bytes (>= 2^14): two entries of 16 KiB .. 32 KiB land a data block
        // exactly on B (or B +- 1), with the long length on the value or on the key
        let b = *pick(r, &[40_000usize, 50_001, 65_536]);
        let delta = *pick(r, &[0isize, 0, 0, -1, 1]);
        let target = (b as isize + delta) as usize;
        let interval = *pick(r, &[1usize, 8, 8]);
        let long_keys = r.gen_bool(0.3);
        // two entries: 2 x (1 + 3 + 4 + long) when the value is long, 2 x (3 + 1 + long) when the key
        // is (its first 4 bytes are the counter), + 8 per offset slot + 4
        let slots = if interval == 1 { 2 } else { 1 };
        let fixed = if long_keys { 2 * (3 + 1) } else { 2 * (1 + 3 + 4) } + 8 * slots + 4;
        let total = target - fixed;
        let (l1, l2) = (total / 2, total - total / 2);
        let nblocks = r.gen_range(2..5usize);
        let n = 2 * nblocks + r.gen_range(0..2);
        let entries = (0..n as u32)
            .map(|i| {
                let len = if i % 2 == 0 { l1 } else { l2 };
                if long_keys {
                    // the counter first: the two key lengths may differ by one
                    let mut k = (i * 2 + 5).to_be_bytes().to_vec();
                    k.resize(len, 0x42);
                    (k, vec![])
                } else {
                    ((i * 2 + 5).to_be_bytes().to_vec(), value_for(i + 1, len))
                }
            })
            .collect();
        let cfg = Cfg { codec: *pick(r, &[0u8, 0, 5]), level: 0, block_size: b, interval, levels: *pick(r, &[0u8, 1, 2]) };
        return (cfg, entries);
    }
    if idx % 7 == 3 {
        // keys about as long as a block: every index entry alone reaches B, so index blocks at any
        // depth hold one entry each and must be dumped one by one
        let b = *pick(r, &[1024usize, 1024, 2048]);
        let kl = *pick(r, &[b - 24, b - 23, b - 22, b - 1, b, b + 76, 2 * b + 52]);
        let n = r.gen_range(3..14u32);
        let entries = (0..n)
            .map(|i| {
                let mut k = vec![0x42u8; kl - 4];
                k.extend_from_slice(&(i * 2 + 5).to_be_bytes());
                (k, value_for(i + 1, *pick(r, &[0usize, 0, 7, 300])))
            })
            .collect();
        let cfg = Cfg { codec: *pick(r, &[0u8, 0, 5]), level: 0, block_size: b, interval: *pick(r, &[1usize, 8]), levels: *pick(r, &[2u8, 2, 3, 4]) };
        return (cfg, entries);
    }
    let mode = idx % 3;
    if mode == 0 {
        // index blocks at depth >= 2 land exactly on B (or B +- 1): choose the key length
        let delta = *pick(r, &[0isize, 0, 0, -1, 1]);
        let target = (b_eff as isize + delta) as usize;
        let mut choices = Vec::new();
        for kl in 4..=300usize {
            let e = fl(kl) + 1 + kl + 8;
            for n in 2..200usize {
                if size_of(n, e) == target {
                    choices.push((kl, n));
                }
            }
        }
        if let Some(&(kl, n_idx)) = choices.get(r.gen_range(0..choices.len().max(1))) {
            // values large enough that a data block holds one or two entries
            let vl = b_eff;
            let blocks_l2 = r.gen_range(2..4usize);
            let n = n_idx * blocks_l2 + r.gen_range(0..n_idx);
            let entries = (0..n as u32)
                .map(|i| {
                    let mut k = vec![0x42u8; kl - 4];
                    k.extend_from_slice(&(i * 3 + 1).to_be_bytes());
                    (k, value_for(i + 1, vl))
                })
                .collect();
            return (cfg, entries);
        }
    }
    // data blocks land exactly on the boundary: choose (kl, vl, n)
    let delta = *pick(r, &[0isize, 0, 0, -1, 1, -2, 2]);
    let target = (b_eff as isize + delta) as usize;
    let kl = *pick(r, &[4usize, 4, 8, 20, 130]);
    let mut choices = Vec::new();
    for vl in 0..=target {
        let e = fl(kl) + fl(vl) + kl + vl;
        for n in 1..=64usize {
            if size_of(n, e) == target {
                choices.push((vl, n));
            }
        }
    }
    let (vl, n_blk) = if choices.is_empty() { (100, 8) } else { choices[r.gen_range(0..choices.len())] };
    let nblocks = r.gen_range(2..40usize);
    let n = n_blk * nblocks + r.gen_range(0..n_blk.max(1));
    let entries = (0..n as u32)
        .map(|i| {
            let mut k = vec![0x42u8; kl - 4];
            k.extend_from_slice(&(i * 2 + 5).to_be_bytes());
            (k, value_for(i + 1, vl))
        })
        .collect();
    (cfg, entries)
}

/// C15: the family plus boundary-engineered files.
pub fn scn_cut(out: &mut TraceOut, r: &mut R, idx: u64, heavy: bool) {
    let (cfg, entries) = if idx % 2 == 0 { cut_file(r, idx / 2) } else { random_file(r, idx / 2, heavy) };
    write_and_log(out, &cfg, &entries);
}

/// C18: insert sequences that are not strictly ascending: a sorted file of the family with one
/// disturbance (duplicate / smaller key / swapped neighbours) at position `p`, for every p in
/// turn, so that the disturbance also falls on the first key of a block, on an index-interval
/// boundary and next to the empty key.
pub fn scn_unsorted(out: &mut TraceOut, r: &mut R, idx: u64, heavy: bool) {
    let (mut cfg, mut entries) = random_file(r, idx / 8, heavy);
    if entries.len() > 120 {
        entries.truncate(120);
    }
    if cfg.levels > 7 {
        cfg.levels = 7;
    }
    let n = entries.len();
    if n < 2 {
        // with fewer than two keys the only disturbance is a duplicate of the single key
        if n == 1 {
            let e = entries[0].clone();
            entries.push(e);
        }
        write_and_log(out, &cfg, &entries);
        return;
    }
    let p = r.gen_range(1..n);
    if r.gen_ratio(1, 4) {
        // the disturbed entry carries a value of at least one block (value-size dependent paths)
        let len = cfg.block_size.clamp(1024, 70_000) + r.gen_range(0..200);
        entries[p].1 = value_for(p as u32 + 1, len);
    }
    match idx % 8 {
        0 | 1 => {
            // duplicate of the predecessor
            entries[p].0 = entries[p - 1].0.clone();
        }
        2 | 3 => {
            // a key smaller than its predecessor (but maybe larger than older ones)
            let back = r.gen_range(1..=p.min(12));
            entries[p].0 = entries[p - back].0.clone();
            if r.gen_bool(0.5) {
                entries[p].0.push(0);
            }
        }
        4 => entries.swap(p - 1, p),
        5 => {
            // a long descending tail
            entries[p..].reverse();
        }
        6 => {
            // several disturbances
            for _ in 0..3 {
                let q = r.gen_range(1..n);
                entries[q].0 = entries[q - 1].0.clone();
            }
        }
        _ => {
            // fully sorted control: must finish and be ascending
        }
    }
    write_and_log(out, &cfg, &entries);
}

/// Spec -> implementation for the writer: insert sequences generated by TLC from the WriterImpl
/// model at real scale (`tlc -simulate`), replayed on the real writer. The decoded file is judged
/// by TLC (TraceLayout); the layout the model predicted (offset, uncompressed size, entries of
/// every block) is compared with the real one and differences are counted as drift.
pub fn replay_wseq(out: &mut TraceOut, doc: &Value) -> (u64, u64) {
    let levels = doc["L"].as_u64().unwrap() as u8;
    let interval = doc["K"].as_u64().unwrap() as usize;
    let keylen = |k: u64| -> usize { if k % 5 == 0 { 4 } else { 300 } };
    let cfg = Cfg { codec: 0, level: 0, block_size: 0, interval, levels };
    let mut blocks_compared = 0u64;
    let mut drift = 0u64;
    for (i, s) in doc["seqs"].as_array().unwrap().iter().enumerate() {
        out.begin(&format!("wseq/{}/{}", doc["name"].as_str().unwrap_or("x"), i));
        let keys: Vec<u64> = s["keys"].as_array().unwrap().iter().map(|x| x.as_u64().unwrap()).collect();
        let vls: Vec<usize> = s["vls"].as_array().unwrap().iter().map(|x| x.as_u64().unwrap() as usize).collect();
        let entries: Vec<Entry> = keys
            .iter()
            .zip(vls.iter())
            .enumerate()
            .map(|(j, (k, vl))| {
                let mut key = vec![0xABu8; keylen(*k)];
                key[0] = *k as u8;
                (key, value_for(j as u32 + 1, *vl))
            })
            .collect();
        if let Some(bytes) = write_and_log(out, &cfg, &entries) {
            let raw = decode::decode(&bytes, 22);
            let predicted = s["layout"].as_array().unwrap();
            blocks_compared += predicted.len() as u64;
            if predicted.len() != raw.blocks.len() {
                drift += 1;
            } else {
                for (p, b) in predicted.iter().zip(raw.blocks.iter()) {
                    if p[0].as_u64() != Some(b.off) || p[1].as_u64() != Some(b.usize_ as u64) || p[2].as_u64() != Some(b.entries.len() as u64) {
                        drift += 1;
                    }
                }
            }
        }
    }
    (blocks_compared, drift)
}


//! Shared helpers: deterministic RNG, sharded ndjson trace output, byte-string dictionary.
use rand::rngs::StdRng;
use rand::{Rng, SeedableRng};
use serde_json::{json, Value};
use std::fs::File;
use std::io::{BufWriter, Write};
use std::path::{Path, PathBuf};

pub type R = StdRng;

pub fn rng(seed: u64, stream: u64) -> R {
    StdRng::seed_from_u64(seed.wrapping_mul(0x9E37_79B9_7F4A_7C15).wrapping_add(stream))
}

pub fn pick<'a, T>(r: &mut R, xs: &'a [T]) -> &'a T {
    &xs[r.gen_range(0..xs.len())]
}

/// Trace output sharded over several ndjson files. A scenario goes entirely to one shard.
pub struct TraceOut {
    dir: PathBuf,
    prefix: String,
    shards: Vec<BufWriter<File>>,
    cur: usize,
    pub scenarios: u64,
    pub events: u64,
    index: BufWriter<File>,
    lines: Vec<u64>,
}

impl TraceOut {
    pub fn new(dir: &Path, prefix: &str, nshards: usize) -> TraceOut {
        std::fs::create_dir_all(dir).unwrap();
        let shards = (0..nshards)
            .map(|i| {
                BufWriter::new(File::create(dir.join(format!("{}-{:02}.ndjson", prefix, i))).unwrap())
            })
            .collect();
        let index = BufWriter::new(File::create(dir.join(format!("{}.index", prefix))).unwrap());
        TraceOut {
            dir: dir.to_path_buf(),
            prefix: prefix.to_string(),
            shards,
            cur: 0,
            scenarios: 0,
            events: 0,
            index,
            lines: vec![0; nshards],
        }
    }

    /// Starts a new scenario; `scn` must be enough to regenerate it (family/seed/index).
    pub fn begin(&mut self, scn: &str) {
        self.cur = (self.scenarios as usize) % self.shards.len();
        self.scenarios += 1;
        // index: shard, first line (1-based) of the scenario, name
        writeln!(self.index, "{}\t{}\t{}", self.cur, self.lines[self.cur] + 1, scn).unwrap();
        // what has been logged so far reaches the disk before the next scenario starts, so that the
        // orchestrator can tell which scenario was running if the process is killed (undefined
        // behaviour in the code under test caught by std's precondition checks, a segfault ...)
        self.index.flush().unwrap();
        self.ev(json!({"ev": "Reset", "scn": scn}));
        let w = &mut self.shards[self.cur];
        w.flush().unwrap();
    }

    pub fn ev(&mut self, v: Value) {
        let w = &mut self.shards[self.cur];
        serde_json::to_writer(&mut *w, &v).unwrap();
        w.write_all(b"\n").unwrap();
        self.lines[self.cur] += 1;
        self.events += 1;
    }

    pub fn dir(&self) -> PathBuf {
        self.dir.clone()
    }

    pub fn finish(mut self) -> Value {
        for w in self.shards.iter_mut() {
            w.flush().unwrap();
        }
        self.index.flush().unwrap();
        json!({"dir": self.dir.to_string_lossy(), "prefix": self.prefix,
               "shards": self.shards.len(), "scenarios": self.scenarios, "events": self.events})
    }
}

/// Sorted, duplicate-free dictionary of byte strings; ids are 1-based ranks.
pub struct Dict {
    pub strs: Vec<Vec<u8>>,
}

impl Dict {
    pub fn build<I: IntoIterator<Item = Vec<u8>>>(items: I) -> Dict {
        let mut strs: Vec<Vec<u8>> = items.into_iter().collect();
        strs.sort();
        strs.dedup();
        Dict { strs }
    }
    pub fn id(&self, s: &[u8]) -> i64 {
        match self.strs.binary_search_by(|x| x.as_slice().cmp(s)) {
            Ok(i) => i as i64 + 1,
            Err(_) => panic!("string not in dictionary: {:?}", s),
        }
    }
    pub fn event(&self) -> Value {
        // Strings of more than 2^24 bytes (the 2^28 framing boundary) cannot go through JSON into
        // TLC; they are logged truncated to 64 bytes, which is only done when the truncated strings
        // are still strictly ascending (so that their order still is the order of the real ones).
        if self.strs.iter().any(|s| s.len() > (1 << 24)) {
            let t: Vec<Vec<u8>> = self.strs.iter().map(|s| s[..s.len().min(64)].to_vec()).collect();
            assert!(t.windows(2).all(|w| w[0] < w[1]), "truncated dictionary not strictly ascending");
            return json!({"ev": "Dict", "strs": t, "truncated": true});
        }
        json!({"ev": "Dict", "strs": self.strs})
    }
}

pub fn panic_msg(e: Box<dyn std::any::Any + Send>) -> String {
    if let Some(s) = e.downcast_ref::<&str>() {
        s.to_string()
    } else if let Some(s) = e.downcast_ref::<String>() {
        s.clone()
    } else {
        "<non-string panic>".to_string()
    }
}

/// Silence the default panic hook (panics of the code under test are data).
pub fn quiet_panics() {
    std::panic::set_hook(Box::new(|_| {}));
}

//! gv — the conformance harness: drives the real grenad (path dependency on /repo, built with
//! --cfg grenad_verif) and records one ndjson event per public call. TLC validates the traces.
mod alloc;
mod api;
mod cursor;
mod decode;
mod faults;
mod files;
mod io;
mod iters;
mod layout;
mod merger;
mod open;
mod sched;
mod sorter;
mod util;
mod varint;

use std::path::PathBuf;

#[global_allocator]
static GLOBAL: alloc::Monitor = alloc::Monitor;
use util::*;

fn family_stream(family: &str) -> u64 {
    // stable small hash of the family name
    family.bytes().fold(1469598103934665603u64, |h, b| (h ^ b as u64).wrapping_mul(1099511628211))
}

/// Runs scenario `idx` of `family` under `seed`. Everything a scenario does derives from
/// (family, seed, idx), so any scenario can be regenerated alone for a replay.
fn run_scenario(out: &mut TraceOut, family: &str, seed: u64, idx: u64, heavy: bool, scheds: &(String, String)) {
    let with_idx = |s: &str| -> io::Sched {
        match io::Sched::parse(s) {
            io::Sched::Random(x) => io::Sched::Random(x.wrapping_mul(1_000_003).wrapping_add(idx)),
            other => other,
        }
    };
    io::reset(with_idx(&scheds.0), with_idx(&scheds.1), None);
    let mut r = rng(seed, family_stream(family).wrapping_add(idx.wrapping_mul(7919)));
    out.begin(&format!("{}/{}/{}", family, seed, idx));
    files::SCN_IDX.with(|c| c.set(idx));
    files::ALLOW_FOREIGN.with(|c| {
        c.set(matches!(family, "seeks" | "history" | "history_faulty" | "ranges" | "prefixes" | "seeks_v1" | "history_v1" | "iters_v1"))
    });
    match family {
        "roundtrip" => cursor::scn_roundtrip(out, &mut r, idx, heavy, 2),
        "roundtrip_v1" => cursor::scn_roundtrip(out, &mut r, idx, heavy, 1),
        "seeks" => cursor::scn_seeks(out, &mut r, idx, heavy, 2, if heavy { 400 } else { 60 }),
        "seeks_v1" => cursor::scn_seeks(out, &mut r, idx, heavy, 1, 60),
        "history" => cursor::scn_history(out, &mut r, idx, heavy, 2, if heavy { 1500 } else { 400 }),
        "history_faulty" => cursor::scn_history_faulty(out, &mut r, idx, heavy, if heavy { 1200 } else { 400 }),
        "history_v1" => cursor::scn_history(out, &mut r, idx, heavy, 1, 300),
        "ranges" => iters::scn_iters(out, &mut r, idx, heavy, 2, true, false),
        "prefixes" => iters::scn_iters(out, &mut r, idx, heavy, 2, false, true),
        "iters_v1" => iters::scn_iters(out, &mut r, idx, heavy, 1, true, true),
        "merge" => merger::scn_merge(out, &mut r, idx, heavy),
        "merge_many" => merger::scn_merge_many(out, &mut r, idx, heavy),
        "sorter" => sorter::scn_sorter(out, &mut r, idx, heavy),
        "spill" => sorter::scn_spill(out, &mut r, idx, heavy),
        "sorter_real" => sorter::scn_sorter_real(out, &mut r, idx, true),
        "merge_resume" => merger::scn_merge_resume(out, &mut r, idx, heavy),
        "sorter_framing" => sorter::scn_sorter_framing(out, &mut r, idx, heavy),
        "open" => open::scn_open(out, &mut r, idx, heavy),
        "varint_sweep" => varint::scn_sweep(out),
        "varint_windows" => varint::scn_windows(out, &mut r, heavy),
        "framing" => cursor::scn_framing(out, &mut r, idx, heavy),
        "wsched" => sched::scn_wsched(out, &mut r, idx, heavy),
        "faults" => faults::scn_faults(out, &mut r, idx, heavy),
        "alloc" => sorter::scn_alloc(out, &mut r, idx, heavy),
        "alloc_readers" => {
            let scratch = out.dir().join("scratch");
            cursor::scn_alloc_readers(out, &mut r, idx, heavy, &scratch);
            let _ = std::fs::remove_dir_all(&scratch);
        }
        "explore" => cursor::scn_explore(out, &mut r, idx, heavy),
        "chunks" => sorter::scn_chunks(out, &mut r, idx, heavy),
        "wprefix" => sched::scn_wprefix(out, &mut r, idx, heavy),
        "api" => api::scn_api(out, &mut r, idx, heavy),
        "format" => layout::scn_format(out, &mut r, idx, heavy),
        "cut" => layout::scn_cut(out, &mut r, idx, heavy),
        "unsorted" => layout::scn_unsorted(out, &mut r, idx, heavy),
        "big" => {
            use rand::Rng;
            let n = *pick(&mut r, &[1000u32, 10_000, 100_000]);
            let n = if heavy && r.gen_bool(0.2) { 1_000_000 } else { n };
            cursor::scn_big(out, &mut r, n, if heavy { 3000 } else { 800 })
        }
        _ => panic!("unknown family {}", family),
    }
}

fn arg<T: std::str::FromStr>(args: &[String], name: &str, default: T) -> T {
    args.iter()
        .position(|a| a == name)
        .and_then(|i| args.get(i + 1))
        .and_then(|v| v.parse().ok())
        .unwrap_or(default)
}

fn main() {
    let args: Vec<String> = std::env::args().collect();
    if args.len() < 2 {
        eprintln!("usage: gv gen <family> --seed S --count N --out DIR --shards K [--heavy]\n       gv one <family> <seed> <idx> --out DIR [--heavy]");
        std::process::exit(2);
    }
    if std::env::var("GV_LOUD").is_err() {
        quiet_panics();
    }
    let heavy = args.iter().any(|a| a == "--heavy");
    if args.iter().any(|a| a == "--raw") {
        decode::INCLUDE_RAW.store(true, std::sync::atomic::Ordering::Relaxed);
    }
    let scheds: (String, String) = (arg(&args, "--rsched", "whole".to_string()), arg(&args, "--wsched", "whole".to_string()));
    match args[1].as_str() {
        "gen" => {
            let family = args[2].clone();
            let seed: u64 = arg(&args, "--seed", 1);
            let count: u64 = arg(&args, "--count", 10);
            let first: u64 = arg(&args, "--first", 0);
            let shards: usize = arg(&args, "--shards", 1);
            let dir: PathBuf = PathBuf::from(arg(&args, "--out", "out/traces".to_string()));
            let mut out = TraceOut::new(&dir, &family, shards);
            // A panic that escapes a scenario is a defect of this harness (panics of the code under
            // test are caught where they happen and logged as data): the scenario is cut short, the
            // panic is reported to the orchestrator, the remaining scenarios still run.
            let mut harness_panics: Vec<String> = Vec::new();
            for idx in first..first + count {
                let r = std::panic::catch_unwind(std::panic::AssertUnwindSafe(|| run_scenario(&mut out, &family, seed, idx, heavy, &scheds)));
                if let Err(e) = r {
                    harness_panics.push(format!("{}/{}/{}: {}", family, seed, idx, panic_msg(e)));
                }
            }
            let mut v = out.finish();
            v["harness_panics"] = serde_json::json!(harness_panics);
            io::reset(io::Sched::Whole, io::Sched::Whole, None);
            v["max_io_calls_in_a_scenario"] = io::MAX_SERVED.load(std::sync::atomic::Ordering::Relaxed).into();
            println!("{}", v);
        }
        "tree" => {
            // gv tree <corner index> <module name> : the decoded block tree of a corner file as a
            // TLA+ module (constants of CursorImpl); keys are 2 x rank so that odd numbers probe gaps
            let idx: usize = args[2].parse().unwrap();
            let name = args[3].clone();
            let (cfg, entries) = cursor::corner_files()[idx].clone();
            let bytes = files::write_file(&cfg, &entries).bytes.expect("corner file must be writable");
            let raw = decode::decode(&bytes, 22);
            let rank = |k: &[u8]| -> usize { entries.binary_search_by(|(kk, _)| kk.as_slice().cmp(k)).unwrap() + 1 };
            let root = u64::from_le_bytes(raw.trailer[0..8].try_into().unwrap());
            // depth of every block by walking from the root
            let mut depth = std::collections::HashMap::new();
            let mut stack = vec![(root, 0u32)];
            while let Some((off, d)) = stack.pop() {
                depth.insert(off, d);
                if d <= cfg.levels as u32 {
                    let b = raw.blocks.iter().find(|b| b.off == off).unwrap();
                    for e in &b.entries {
                        stack.push((u64::from_be_bytes(e.val.as_slice().try_into().unwrap()), d + 1));
                    }
                }
            }
            let mut blocks = Vec::new();
            let mut pos = 0usize;
            for b in &raw.blocks {
                let d = depth[&b.off];
                let ents: Vec<String> = b.entries.iter().map(|e| {
                    let v = if d == cfg.levels as u32 + 1 { pos += 1; pos as u64 } else { u64::from_be_bytes(e.val.as_slice().try_into().unwrap()) };
                    format!("[k |-> {}, v |-> {}]", 2 * rank(&e.key), v)
                }).collect();
                blocks.push(format!("({} :> <<{}>>)", b.off, ents.join(", ")));
            }
            println!("---- MODULE {} ----", name);
            println!("\\* Generated by `gv tree {} {}` from corner file {} ({:?}, {} entries) written by the real writer", idx, name, idx, cfg, entries.len());
            println!("\\* and decoded by the independent decoder. Block offsets are real file offsets.");
            println!("EXTENDS CursorImpl, TLC");
            println!("TBlocks == {}", blocks.join(" @@\n    "));
            println!("TRoot == {}", root);
            println!("TLevels == {}", cfg.levels);
            println!("TDataKeys == [i \\in 1..{} |-> 2 * i]", entries.len());
            println!("TProbes == 1..{}", 2 * entries.len() + 1);
            println!("====");
        }
        "hist" => {
            // gv hist <histories.json> --out DIR --shards K [--extend]
            let doc: serde_json::Value = serde_json::from_str(&std::fs::read_to_string(&args[2]).unwrap()).unwrap();
            let corner = doc["corner"].as_u64().unwrap() as usize;
            let hists: Vec<Vec<(String, usize, i64, u64)>> = doc["hists"].as_array().unwrap().iter().map(|h| {
                h.as_array().unwrap().iter().map(|s| (s[0].as_str().unwrap().to_string(), s[1].as_u64().unwrap() as usize, s[2].as_i64().unwrap(), s[3].as_u64().unwrap_or(0))).collect()
            }).collect();
            let shards: usize = arg(&args, "--shards", 1);
            let dir: PathBuf = PathBuf::from(arg(&args, "--out", "out/traces".to_string()));
            let extend = args.iter().any(|a| a == "--extend");
            let mut out = TraceOut::new(&dir, "hist", shards);
            io::reset(io::Sched::Whole, io::Sched::Whole, None);
            let (compared, drift) = cursor::replay_histories(&mut out, corner, &hists, extend, "hist");
            let mut v = out.finish();
            v["model_results_compared"] = compared.into();
            v["model_result_drift"] = drift.into();
            println!("{}", v);
        }
        "wseq" => {
            let doc: serde_json::Value = serde_json::from_str(&std::fs::read_to_string(&args[2]).unwrap()).unwrap();
            let shards: usize = arg(&args, "--shards", 1);
            let dir: PathBuf = PathBuf::from(arg(&args, "--out", "out/traces".to_string()));
            let mut out = TraceOut::new(&dir, "wseq", shards);
            io::reset(io::Sched::Whole, io::Sched::Whole, None);
            let (compared, drift) = layout::replay_wseq(&mut out, &doc);
            let mut v = out.finish();
            v["model_blocks_compared"] = compared.into();
            v["model_layout_drift"] = drift.into();
            println!("{}", v);
        }
        "mrun" => {
            let doc: serde_json::Value = serde_json::from_str(&std::fs::read_to_string(&args[2]).unwrap()).unwrap();
            let shards: usize = arg(&args, "--shards", 1);
            let seed: u64 = arg(&args, "--seed", 1);
            let dir: PathBuf = PathBuf::from(arg(&args, "--out", "out/traces".to_string()));
            let mut out = TraceOut::new(&dir, "mrun", shards);
            io::reset(io::Sched::Whole, io::Sched::Whole, None);
            let mut r = rng(seed, 777);
            let (compared, drift) = merger::replay_mruns(&mut out, &doc, &mut r);
            let mut v = out.finish();
            v["model_keys_compared"] = compared.into();
            v["model_order_drift"] = drift.into();
            println!("{}", v);
        }
        "sseq" => {
            let doc: serde_json::Value = serde_json::from_str(&std::fs::read_to_string(&args[2]).unwrap()).unwrap();
            let shards: usize = arg(&args, "--shards", 1);
            let dir: PathBuf = PathBuf::from(arg(&args, "--out", "out/traces".to_string()));
            let mut out = TraceOut::new(&dir, "sseq", shards);
            io::reset(io::Sched::Whole, io::Sched::Whole, None);
            let (compared, drift) = sorter::replay_sseq(&mut out, &doc);
            let mut v = out.finish();
            v["model_steps_compared"] = compared.into();
            v["model_accounting_drift"] = drift.into();
            println!("{}", v);
        }
        "one" => {
            let family = args[2].clone();
            let seed: u64 = args[3].parse().unwrap();
            let idx: u64 = args[4].parse().unwrap();
            let dir: PathBuf = PathBuf::from(arg(&args, "--out", "out/replay".to_string()));
            let mut out = TraceOut::new(&dir, "trace", 1);
            run_scenario(&mut out, &family, seed, idx, heavy, &scheds);
            println!("{}", out.finish());
        }
        other => {
            eprintln!("unknown command {}", other);
            std::process::exit(2);
        }
    }
}

//! Range and prefix iterator scenarios (C04, C05, and C10 on V1 files).
use crate::cursor::{build_and_log, probes_for, random_file_capped, Content, Src};
use crate::files::*;
use crate::util::*;
use grenad::Reader;
use rand::seq::SliceRandom;
use rand::Rng;
use serde_json::{json, Value};
use std::ops::Bound;
use std::panic::{catch_unwind, AssertUnwindSafe};
use std::rc::Rc;

fn bound_json(b: &Bound<Vec<u8>>, dict: &Dict) -> Value {
    match b {
        Bound::Unbounded => json!({"t": "U", "q": 0}),
        Bound::Included(q) => json!({"t": "I", "q": dict.id(q)}),
        Bound::Excluded(q) => json!({"t": "E", "q": dict.id(q)}),
    }
}

fn mk_bound(kind: u8, q: &[u8]) -> Bound<Vec<u8>> {
    match kind {
        0 => Bound::Unbounded,
        1 => Bound::Included(q.to_vec()),
        _ => Bound::Excluded(q.to_vec()),
    }
}

enum Q {
    Range(bool, Bound<Vec<u8>>, Bound<Vec<u8>>),
    Prefix(bool, Vec<u8>),
}

/// Runs one iterator on a fresh reader until its first None.
fn run_iter(data: &Rc<Vec<u8>>, content: &Content, q: &Q) -> Result<Vec<i64>, String> {
    let limit = content.len() + 3;
    let r = catch_unwind(AssertUnwindSafe(|| -> Result<Vec<i64>, String> {
        let reader = Reader::new(Src::new(data.clone())).map_err(|e| e.to_string())?;
        let mut out = Vec::new();
        macro_rules! drain {
            ($it:expr) => {{
                let mut it = $it.map_err(|e| e.to_string())?;
                while let Some((k, v)) = it.next().map_err(|e| e.to_string())? {
                    out.push(content.name(k, v));
                    if out.len() > limit {
                        break;
                    }
                }
            }};
        }
        match q {
            Q::Range(false, lo, hi) => drain!(reader.into_range_iter((lo.clone(), hi.clone()))),
            Q::Range(true, lo, hi) => drain!(reader.into_rev_range_iter((lo.clone(), hi.clone()))),
            Q::Prefix(false, p) => drain!(reader.into_prefix_iter(p.clone())),
            Q::Prefix(true, p) => drain!(reader.into_rev_prefix_iter(p.clone())),
        }
        Ok(out)
    }));
    match r {
        Ok(x) => x,
        Err(e) => Err(format!("panic: {}", panic_msg(e))),
    }
}

pub fn scn_iters(out: &mut TraceOut, r: &mut R, idx: u64, heavy: bool, ver: u8, ranges: bool, prefixes: bool) {
    let (mut cfg, entries) = random_file_capped(r, idx, heavy, 20_000);
    if ver == 1 {
        cfg.levels = 0;
    }
    let mut probes = probes_for(&entries);
    // proper prefixes of stored keys and short strings over the 0x00/0x01/0xFE/0xFF alphabet
    if prefixes {
        for (k, _) in &entries {
            for l in 0..k.len().min(4) {
                probes.push(k[..l].to_vec());
            }
            if k.len() > 4 {
                probes.push(k[..k.len() - 1].to_vec());
                probes.push(k[..k.len() / 2].to_vec());
            }
        }
        probes.extend(alpha_strings(2));
        probes.push(vec![0xFF, 0xFF, 0xFF]);
        probes.sort();
        probes.dedup();
    }
    let cap = if heavy { 400 } else { 90 };
    if probes.len() > cap {
        probes.shuffle(r);
        probes.truncate(cap);
        probes.sort();
    }
    let (dict, data) = build_and_log(out, &cfg, &entries, &probes, ver);
    let Some(data) = data else { return };
    let content = Content::list(entries);
    let mut qs: Vec<Q> = Vec::new();
    if ranges {
        let per_pair = if heavy { 24 } else { 8 };
        for lk in 0..3u8 {
            for hk in 0..3u8 {
                for _ in 0..per_pair {
                    let a = pick(r, &probes).clone();
                    // equal, adjacent, inverted and far bounds
                    let b = match r.gen_range(0..4) {
                        0 => a.clone(),
                        _ => pick(r, &probes).clone(),
                    };
                    for rev in [false, true] {
                        qs.push(Q::Range(rev, mk_bound(lk, &a), mk_bound(hk, &b)));
                    }
                    if lk == 0 && hk == 0 {
                        break;
                    }
                }
            }
        }
    }
    if prefixes {
        for p in &probes {
            qs.push(Q::Prefix(false, p.clone()));
            qs.push(Q::Prefix(true, p.clone()));
        }
    }
    for q in &qs {
        let res = run_iter(&data, &content, q);
        let (kind, lo, hi, p) = match q {
            Q::Range(rev, lo, hi) => (if *rev { "revrange" } else { "range" }, bound_json(lo, &dict), bound_json(hi, &dict), 0),
            Q::Prefix(rev, p) => (
                if *rev { "revprefix" } else { "prefix" },
                json!({"t": "U", "q": 0}),
                json!({"t": "U", "q": 0}),
                dict.id(p),
            ),
        };
        match res {
            Ok(ids) => out.ev(json!({"ev": "Iter", "kind": kind, "lo": lo, "hi": hi, "p": p, "res": "ok", "out": ids})),
            Err(e) => out.ev(json!({"ev": "Iter", "kind": kind, "lo": lo, "hi": hi, "p": p, "res": "fail", "detail": e, "out": []})),
        }
    }
}

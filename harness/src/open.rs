//! C13: Reader::new over arbitrary byte strings: every truncation of finished files (crash
//! points of a writer whose last emission is the trailer), every single-byte corruption of the
//! trailer, crafted and random strings.
use crate::cursor::random_file;
use crate::files::*;
use crate::util::*;
use rand::Rng;
use serde_json::json;
use std::panic::{catch_unwind, AssertUnwindSafe};

fn try_open(out: &mut TraceOut, bytes: &[u8], what: &str) {
    let r = catch_unwind(AssertUnwindSafe(|| grenad::Reader::new(crate::cursor::Src::new(std::rc::Rc::new(bytes.to_vec())))));
    let size = bytes.len();
    let tail: Vec<u8> = bytes[size.saturating_sub(26)..].to_vec();
    match r {
        Ok(Ok(reader)) => {
            let ver = match reader.file_version() {
                grenad::FileVersion::FormatV1 => 1,
                grenad::FileVersion::FormatV2 => 2,
            };
            out.ev(json!({"ev": "Try", "what": what, "size": size, "tail": tail, "res": "ok", "ver": ver,
                          "codec": codec_id(reader.compression_type())}));
        }
        Ok(Err(_)) => out.ev(json!({"ev": "Try", "what": what, "size": size, "tail": tail, "res": "err", "ver": 0, "codec": -1})),
        Err(e) => out.ev(json!({"ev": "Try", "what": what, "size": size, "tail": tail, "res": "panic", "ver": 0, "codec": -1, "detail": panic_msg(e)})),
    }
}

pub fn scn_open(out: &mut TraceOut, r: &mut R, idx: u64, heavy: bool) {
    // base file: small, all codecs over the scenarios, V1 for every third one
    let (mut cfg, mut entries) = random_file(r, 1000 + idx, false);
    entries.truncate(if heavy { 40 } else { 12 });
    for e in entries.iter_mut() {
        e.1.truncate(64);
        e.0.truncate(40);
    }
    entries.sort();
    entries.dedup_by(|a, b| a.0 == b.0);
    cfg.codec = (idx % 6) as u8;
    cfg.level = 0;
    let v1 = idx % 3 == 2;
    if v1 || cfg.levels > 3 {
        cfg.levels = if v1 { 0 } else { 2 };
    }
    let Some(mut bytes) = write_file(&cfg, &entries).bytes else { return };
    if v1 {
        bytes = to_v1(&bytes);
    }
    let tl = if v1 { 21 } else { 22 };
    let n = bytes.len();
    // every truncation length
    for cut in 0..=n {
        try_open(out, &bytes[..cut], "truncate");
    }
    // every single-byte corruption of the trailer to every other value
    for pos in n - tl..n {
        let orig = bytes[pos];
        for v in 0..=255u8 {
            if v != orig {
                bytes[pos] = v;
                try_open(out, &bytes, "corrupt");
            }
        }
        bytes[pos] = orig;
    }
    // only the trailer, and tails of the file of every length up to 30
    for t in 0..=30usize.min(n) {
        try_open(out, &bytes[n - t..], "tail");
    }
    // crafted strings
    let m1 = [0x4Cu8, 0x4D, 0x32, 0x76];
    let m2 = [0xC4u8, 0xD4, 0x23, 0x67];
    for magic in [&m1, &m2] {
        for len in 0..=24usize {
            for codec in [0u8, 5, 6, 0x80, 0x85, 255] {
                let mut s = vec![0u8; len];
                if len >= 4 {
                    s[len - 4..].copy_from_slice(magic);
                }
                let rec = if magic == &m1 { 21 } else { 22 };
                if len >= rec {
                    s[len - rec + 8] = codec;
                }
                try_open(out, &s, "crafted");
                // the codec byte where the *other* version keeps it
                let other = if magic == &m1 { 22 } else { 21 };
                if len >= other {
                    let mut s2 = vec![0u8; len];
                    s2[len - 4..].copy_from_slice(magic);
                    s2[len - other + 8] = codec;
                    try_open(out, &s2, "crafted-other");
                }
            }
        }
    }
    // random strings, some ending in a magic
    for _ in 0..200 {
        let len = r.gen_range(0..40);
        let mut s: Vec<u8> = (0..len).map(|_| r.gen()).collect();
        if len >= 4 && r.gen_bool(0.6) {
            let m = if r.gen_bool(0.5) { m1 } else { m2 };
            s[len - 4..].copy_from_slice(&m);
            if len >= 13 && r.gen_bool(0.5) {
                let p = len - if m == m1 { 21.min(len) } else { 22.min(len) } + 8;
                if p < len - 4 {
                    s[p] = r.gen_range(0..8);
                }
            }
        }
        try_open(out, &s, "random");
    }
}

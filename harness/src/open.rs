//! C13: Reader::new over arbitrary byte strings: every truncation of finished files (crash
//! points of a writer whose last emission is the trailer), every single-byte corruption of the
//! trailer, crafted and random strings.
use crate::cursor::random_file;
use crate::files::*;
use crate::util::*;
use rand::Rng;
use serde_json::json;
use std::panic::{catch_unwind, AssertUnwindSafe};

fn try_open(out: &mut TraceOut, bytes: &[u8], what: &str) {
    let r = catch_unwind(AssertUnwindSafe(|| grenad::Reader::new(crate::cursor::Src::new(std::rc::Rc::new(bytes.to_vec())))));
    let size = bytes.len();
    let tail: Vec<u8> = bytes[size.saturating_sub(26)..].to_vec();
    match r {
        Ok(Ok(reader)) => {
            let ver = match reader.file_version() {
                grenad::FileVersion::FormatV1 => 1,
                grenad::FileVersion::FormatV2 => 2,
            };
            out.ev(json!({"ev": "Try", "what": what, "size": size, "tail": tail, "res": "ok", "ver": ver,
                          "codec": codec_id(reader.compression_type())}));
        }
        Ok(Err(_)) => out.ev(json!({"ev": "Try", "what": what, "size": size, "tail": tail, "res": "err", "ver": 0, "codec": -1})),
        Err(e) => out.ev(json!({"ev": "Try", "what": what, "size": size, "tail": tail, "res": "panic", "ver": 0, "codec": -1, "detail": panic_msg(e)})),
    }
}

/// The same through a real file (std::fs::File has its own rules for offsets: negative positions
/// and offsets >= 2^63 are errors of the operating system, not of an in-memory cursor).
fn try_open_file(out: &mut TraceOut, file: &mut std::fs::File, bytes: &[u8], what: &str) {
    use std::io::{Seek, SeekFrom, Write};
    let prepared = (|| -> std::io::Result<std::fs::File> {
        file.set_len(0)?;
        file.seek(SeekFrom::Start(0))?;
        file.write_all(bytes)?;
        file.flush()?;
        file.seek(SeekFrom::Start(0))?;
        file.try_clone()
    })();
    let Ok(f) = prepared else { return };
    let r = catch_unwind(AssertUnwindSafe(|| grenad::Reader::new(f)));
    let size = bytes.len();
    let tail: Vec<u8> = bytes[size.saturating_sub(26)..].to_vec();
    match r {
        Ok(Ok(reader)) => {
            let ver = match reader.file_version() {
                grenad::FileVersion::FormatV1 => 1,
                grenad::FileVersion::FormatV2 => 2,
            };
            out.ev(json!({"ev": "Try", "what": what, "size": size, "tail": tail, "res": "ok", "ver": ver,
                          "codec": codec_id(reader.compression_type())}));
        }
        Ok(Err(_)) => out.ev(json!({"ev": "Try", "what": what, "size": size, "tail": tail, "res": "err", "ver": 0, "codec": -1})),
        Err(e) => out.ev(json!({"ev": "Try", "what": what, "size": size, "tail": tail, "res": "panic", "ver": 0, "codec": -1, "detail": panic_msg(e)})),
    }
}

fn scratch_file(idx: u64) -> Option<(std::fs::File, std::path::PathBuf)> {
    let p = std::env::temp_dir().join(format!("gv-open-{}-{}.bin", std::process::id(), idx));
    let f = std::fs::OpenOptions::new().read(true).write(true).create(true).truncate(true).open(&p).ok()?;
    Some((f, p))
}

pub fn scn_open(out: &mut TraceOut, r: &mut R, idx: u64, heavy: bool) {
    // base file: small, all codecs over the scenarios, V1 for every third one
    let (mut cfg, mut entries) = random_file(r, 1000 + idx, false);
    entries.truncate(if heavy { 40 } else { 12 });
    for e in entries.iter_mut() {
        e.1.truncate(64);
        e.0.truncate(40);
    }
    entries.sort();
    entries.dedup_by(|a, b| a.0 == b.0);
    cfg.codec = (idx % 6) as u8;
    cfg.level = 0;
    let v1 = idx % 3 == 2;
    if v1 || cfg.levels > 3 {
        cfg.levels = if v1 { 0 } else { 2 };
    }
    let Some(mut bytes) = write_file(&cfg, &entries).bytes else { return };
    if v1 {
        bytes = to_v1(&bytes);
    }
    let tl = if v1 { 21 } else { 22 };
    let n = bytes.len();
    // every truncation length
    for cut in 0..=n {
        try_open(out, &bytes[..cut], "truncate");
    }
    // every single-byte corruption of the trailer to every other value
    for pos in n - tl..n {
        let orig = bytes[pos];
        for v in 0..=255u8 {
            if v != orig {
                bytes[pos] = v;
                try_open(out, &bytes, "corrupt");
            }
        }
        bytes[pos] = orig;
    }
    // boundary values of the numeric trailer fields (root offset, entry count): the trailer stays
    // valid, opening does not follow the offset; in memory and through a real file
    let scratch = scratch_file(idx);
    {
        let edge: [u64; 12] = [0, 1, n as u64, n as u64 + 1, (1 << 31) - 1, 1 << 32, (1 << 63) - 1, 1 << 63, (1 << 63) + 1,
                               u64::MAX - 22, u64::MAX - 21, u64::MAX];
        let (off_at, cnt_at) = (n - tl, n - tl + 9);
        let saved = bytes.clone();
        for (fi, at) in [off_at, cnt_at].into_iter().enumerate() {
            for x in edge {
                // both versions store the two fields little-endian
                let enc = x.to_le_bytes();
                bytes[at..at + 8].copy_from_slice(&enc);
                try_open(out, &bytes, if fi == 0 { "edge-offset" } else { "edge-count" });
                try_open(out, &bytes[n - tl..], "edge-bare");
                if let Some((f, _)) = scratch.as_ref() {
                    let mut f = f.try_clone().unwrap();
                    try_open_file(out, &mut f, &bytes, "file-edge");
                    try_open_file(out, &mut f, &bytes[n - tl..], "file-edge-bare");
                }
                bytes.copy_from_slice(&saved);
            }
        }
    }
    // through a real file: some truncations and the corruptions of every trailer byte to 3 values
    if let Some((f, path)) = scratch {
        let mut f = f;
        for cut in (0..=n).rev().take(40).chain([0usize, 1, 3, 4, 5].into_iter().filter(|c| *c + 40 < n)) {
            try_open_file(out, &mut f, &bytes[..cut], "file-truncate");
        }
        for pos in n - tl..n {
            let orig = bytes[pos];
            for v in [orig ^ 0x80, orig.wrapping_add(1), !orig] {
                bytes[pos] = v;
                try_open_file(out, &mut f, &bytes, "file-corrupt");
            }
            bytes[pos] = orig;
        }
        drop(f);
        let _ = std::fs::remove_file(path);
    }
    // only the trailer, and tails of the file of every length up to 30
    for t in 0..=30usize.min(n) {
        try_open(out, &bytes[n - t..], "tail");
    }
    // crafted strings
    let m1 = [0x4Cu8, 0x4D, 0x32, 0x76];
    let m2 = [0xC4u8, 0xD4, 0x23, 0x67];
    for magic in [&m1, &m2] {
        for len in 0..=24usize {
            for codec in [0u8, 5, 6, 0x80, 0x85, 255] {
                let mut s = vec![0u8; len];
                if len >= 4 {
                    s[len - 4..].copy_from_slice(magic);
                }
                let rec = if magic == &m1 { 21 } else { 22 };
                if len >= rec {
                    s[len - rec + 8] = codec;
                }
                try_open(out, &s, "crafted");
                // the codec byte where the *other* version keeps it
                let other = if magic == &m1 { 22 } else { 21 };
                if len >= other {
                    let mut s2 = vec![0u8; len];
                    s2[len - 4..].copy_from_slice(magic);
                    s2[len - other + 8] = codec;
                    try_open(out, &s2, "crafted-other");
                }
            }
        }
    }
    // random strings, some ending in a magic
    for _ in 0..200 {
        let len = r.gen_range(0..40);
        let mut s: Vec<u8> = (0..len).map(|_| r.gen()).collect();
        if len >= 4 && r.gen_bool(0.6) {
            let m = if r.gen_bool(0.5) { m1 } else { m2 };
            s[len - 4..].copy_from_slice(&m);
            if len >= 13 && r.gen_bool(0.5) {
                let p = len - if m == m1 { 21.min(len) } else { 22.min(len) } + 8;
                if p < len - 4 {
                    s[p] = r.gen_range(0..8);
                }
            }
        }
        try_open(out, &s, "random");
    }
}

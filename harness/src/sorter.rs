//! Sorter scenarios (C07 output, C08 spill bounds; the allocator monitor of C17 runs over them).
use crate::files::*;
use crate::merger::{Mf, Recorder};
use crate::util::*;
use grenad::{ChunkCreator, CursorVec, Merger, Sorter, SortAlgorithm, TempFileChunk};
use rand::Rng;
use serde_json::{json, Value};
use std::cell::RefCell;
use std::io::{self, Cursor, Read, Seek, SeekFrom, Write};
use std::num::NonZeroUsize;
use std::panic::{catch_unwind, AssertUnwindSafe};
use std::rc::Rc;

/// Events produced by user components during a public call; flushed before the call's own event.
pub type Pending = Rc<RefCell<Vec<Value>>>;

pub type Captured = Rc<RefCell<Vec<Vec<u8>>>>;

pub struct LogChunk {
    id: u64,
    inner: Cursor<Vec<u8>>,
    log: Pending,
    /// when set, the bytes of the chunk are handed over when it is dropped
    capture: Option<Captured>,
}

impl Drop for LogChunk {
    fn drop(&mut self) {
        self.log.borrow_mut().push(json!({"ev": "Drop", "id": self.id}));
        if let Some(c) = &self.capture {
            c.borrow_mut().push(std::mem::take(self.inner.get_mut()));
        }
    }
}
impl Read for LogChunk {
    fn read(&mut self, buf: &mut [u8]) -> io::Result<usize> {
        if let Some(kind) = crate::io::on_call("chunk.read") {
            return Err(crate::io::io_error(&kind));
        }
        let avail = (self.inner.get_ref().len() as u64).saturating_sub(self.inner.position()) as usize;
        let n = buf.len().min(avail);
        if n == 0 {
            return self.inner.read(buf);
        }
        let n = crate::io::plan(true, n)?;
        self.inner.read(&mut buf[..n])
    }
}
impl Write for LogChunk {
    fn write(&mut self, buf: &[u8]) -> io::Result<usize> {
        if let Some(kind) = crate::io::on_call("chunk.write") {
            if kind == "zero" {
                return Ok(0);
            }
            return Err(crate::io::io_error(&kind));
        }
        if buf.is_empty() {
            return Ok(0);
        }
        let n = crate::io::plan(false, buf.len())?;
        self.inner.write(&buf[..n])
    }
    fn flush(&mut self) -> io::Result<()> {
        if let Some(kind) = crate::io::on_call("chunk.flush") {
            return Err(crate::io::io_error(&kind));
        }
        self.inner.flush()
    }
}
impl Seek for LogChunk {
    fn seek(&mut self, pos: SeekFrom) -> io::Result<u64> {
        if let Some(kind) = crate::io::on_call("chunk.seek") {
            return Err(crate::io::io_error(&kind));
        }
        self.inner.seek(pos)
    }
}

pub struct LogCreator {
    pub next: RefCell<u64>,
    pub log: Pending,
    pub capture: Option<Captured>,
}

impl ChunkCreator for LogCreator {
    type Chunk = LogChunk;
    type Error = grenad::Error;
    fn create(&self) -> Result<LogChunk, grenad::Error> {
        if let Some(kind) = crate::io::on_call("create") {
            self.log.borrow_mut().push(json!({"ev": "CreateFail"}));
            return Err(match kind.as_str() {
                "create:fmt" => grenad::Error::InvalidFormatVersion,
                "create:codec" => grenad::Error::InvalidCompressionType,
                k => grenad::Error::Io(crate::io::io_error(k)),
            });
        }
        let mut n = self.next.borrow_mut();
        *n += 1;
        self.log.borrow_mut().push(json!({"ev": "Create", "id": *n}));
        Ok(LogChunk { id: *n, inner: Cursor::new(Vec::new()), log: self.log.clone(), capture: self.capture.clone() })
    }
}

#[derive(Clone, Debug)]
pub struct SCfg {
    /// None: real thresholds (10 MiB minimum) through the public API only
    pub hook: Option<(usize, usize)>,
    pub requested: usize,
    pub realloc: bool,
    pub maxc: usize,
    pub stable: bool,
    pub threads: usize,
    pub chunk: Cfg,
    /// 0 instrumented creator, 1 CursorVec, 2 TempFileChunk
    pub creator: u8,
    /// 0 stream iter, 1 stream writer, 2 reader cursors + Merger
    pub mode: u8,
    /// merge function: concatenation, or join with ',' (shows where empty values are)
    pub join: bool,
    /// merge function "keep the first value" (takes precedence over `join`): a collapsing merge, so
    /// that spilled chunks stay tiny however much is inserted
    pub first: bool,
    /// the caller retries an insert that failed (used with a transient chunk-creator failure)
    pub retry: bool,
}

impl SCfg {
    pub fn teff(&self) -> usize {
        match self.hook {
            Some((t, _)) => t,
            None => self.requested.max(10_485_760),
        }
    }
    pub fn json(&self) -> Value {
        json!({"ev": "SCfg", "teff": self.teff(), "hook": self.hook.is_some(),
               "init": self.hook.map(|h| h.1).unwrap_or(131072), "realloc": self.realloc, "maxc": self.maxc,
               "stable": self.stable, "mf": if self.first { "first" } else if self.join { "join" } else { "concat" }, "threads": self.threads, "creator": self.creator, "mode": self.mode,
               "chunk": self.chunk.json()})
    }
}

/// Inserted value number `id` (1-based): self-delimiting token [len u32][id u32][pad..]; len 0 = empty.
pub fn stoken(id: u32, len: usize) -> Vec<u8> {
    if len == 0 {
        return Vec::new();
    }
    let len = len.max(8);
    let mut v = Vec::with_capacity(len);
    v.extend_from_slice(&(len as u32).to_be_bytes());
    v.extend_from_slice(&id.to_be_bytes());
    let mut x = id;
    while v.len() < len {
        x = x.wrapping_mul(1664525).wrapping_add(1013904223);
        v.push((x >> 24) as u8 & 0x3f);
    }
    v
}

/// ids of the tokens concatenated in `v` (empty tokens are invisible); -1 if unparsable.
pub fn parse_tokens(v: &[u8]) -> Vec<i64> {
    let mut out = Vec::new();
    let mut p = 0;
    while p + 8 <= v.len() {
        let len = u32::from_be_bytes([v[p], v[p + 1], v[p + 2], v[p + 3]]) as usize;
        if len < 8 || p + len > v.len() {
            break;
        }
        let id = u32::from_be_bytes([v[p + 4], v[p + 5], v[p + 6], v[p + 7]]);
        if stoken(id, len) != v[p..p + len] {
            out.push(-1);
        } else {
            out.push(id as i64);
        }
        p += len;
    }
    if p != v.len() {
        out.push(-1);
    }
    out
}

/// ids of the values joined with ',' in `v`, 0 for an empty value; -1 if unparsable.
pub fn parse_joined(v: &[u8]) -> Vec<i64> {
    let mut out = Vec::new();
    let mut p = 0;
    loop {
        // one (possibly empty) value
        if p + 8 <= v.len() && v[p] != b',' {
            let len = u32::from_be_bytes([v[p], v[p + 1], v[p + 2], v[p + 3]]) as usize;
            if len < 8 || p + len > v.len() {
                out.push(-1);
                return out;
            }
            let id = u32::from_be_bytes([v[p + 4], v[p + 5], v[p + 6], v[p + 7]]);
            out.push(if stoken(id, len) == v[p..p + len] { id as i64 } else { -1 });
            p += len;
        } else if p == v.len() || v[p] == b',' {
            out.push(0);
        } else {
            out.push(-1);
            return out;
        }
        if p == v.len() {
            return out;
        }
        if v[p] != b',' {
            out.push(-1);
            return out;
        }
        p += 1;
    }
}

type OutEntries = Vec<(Vec<u8>, Vec<u8>)>;

struct AssertSend<F>(F);
unsafe impl<F> Send for AssertSend<F> {}
impl<F: FnOnce() -> Result<OutEntries, String>> AssertSend<F> {
    fn call(self) -> Result<OutEntries, String> {
        (self.0)()
    }
}

fn run_with<CC: ChunkCreator>(
    cfg: &SCfg,
    creator: CC,
    inserts: &[Entry],
    mut on_insert: impl FnMut(usize, Result<(), String>),
) -> Result<OutEntries, String>
where
    CC::Chunk: 'static,
{
    let rec = Recorder { mf: if cfg.first { Mf::First } else if cfg.join { Mf::Join } else { Mf::Concat }, calls: RefCell::new(Vec::new()) };
    let mut b = Sorter::builder(&rec);
    b.allow_realloc(cfg.realloc).max_nb_chunks(cfg.maxc);
    match cfg.hook {
        Some((t, init)) => {
            b.verif_budget(t, init);
        }
        None => {
            b.dump_threshold(cfg.requested);
        }
    }
    b.sort_algorithm(if cfg.stable { SortAlgorithm::Stable } else { SortAlgorithm::Unstable });
    b.sort_in_parallel(cfg.threads > 0);
    b.chunk_compression_type(codec_of(cfg.chunk.codec))
        .chunk_compression_level(cfg.chunk.level)
        .block_size(cfg.chunk.block_size)
        .index_key_interval(NonZeroUsize::new(cfg.chunk.interval).unwrap())
        .index_levels(cfg.chunk.levels);
    let mut sorter = b.chunk_creator(creator).build();
    for (i, (k, v)) in inserts.iter().enumerate() {
        let mut r = sorter.insert(k, v).map_err(|e| e.to_string());
        if r.is_err() && cfg.retry {
            // log the failed call, then the caller tries the same entry again
            on_insert(i, r);
            r = sorter.insert(k, v).map_err(|e| e.to_string());
        }
        let failed = r.is_err();
        on_insert(i, r);
        if failed {
            return Err("insert failed".into());
        }
        rec.calls.borrow_mut().clear();
    }
    let mut out: OutEntries = Vec::new();
    let limit = inserts.len() + 3;
    match cfg.mode {
        0 => {
            let mut it = sorter.into_stream_merger_iter().map_err(|e| e.to_string())?;
            while let Some((k, v)) = it.next().map_err(|e| e.to_string())? {
                out.push((k.to_vec(), v.to_vec()));
                if out.len() > limit {
                    break;
                }
            }
        }
        1 => {
            let mut w = Cfg::default_small().builder().memory();
            sorter.write_into_stream_writer(&mut w).map_err(|e| e.to_string())?;
            let bytes = w.into_inner().map_err(|e| e.to_string())?;
            let mut c = grenad::Reader::new(Cursor::new(bytes)).and_then(|r| r.into_cursor()).map_err(|e| e.to_string())?;
            while let Some((k, v)) = c.move_on_next().map_err(|e| e.to_string())? {
                out.push((k.to_vec(), v.to_vec()));
                if out.len() > limit {
                    break;
                }
            }
        }
        _ => {
            let cursors = sorter.into_reader_cursors().map_err(|e| e.to_string())?;
            let mut mb = Merger::builder(&rec);
            mb.extend(cursors);
            let mut it = mb.build().into_stream_merger_iter().map_err(|e| e.to_string())?;
            while let Some((k, v)) = it.next().map_err(|e| e.to_string())? {
                out.push((k.to_vec(), v.to_vec()));
                if out.len() > limit {
                    break;
                }
            }
        }
    }
    Ok(out)
}

/// Runs one sorter scenario and logs it. Returns nothing; all judgement is TLC's.
pub fn run_logged(out: &mut TraceOut, cfg: &SCfg, inserts: &[Entry], ids: &[u32]) {
    let dict = Dict::build(inserts.iter().map(|(k, _)| k.clone()));
    out.ev(dict.event());
    out.ev(cfg.json());
    let pending: Pending = Rc::new(RefCell::new(Vec::new()));
    let acc: RefCell<Vec<Value>> = RefCell::new(Vec::new());
    let res = {
        let on_insert = |i: usize, r: Result<(), String>| {
            let mut a = acc.borrow_mut();
            a.extend(pending.borrow_mut().drain(..));
            let (k, v) = &inserts[i];
            a.push(json!({"ev": "SIns", "k": dict.id(k), "id": if v.is_empty() { 0 } else { ids[i] as i64 },
                "size": k.len() + v.len(), "res": if r.is_ok() { "ok".to_string() } else { format!("err: {}", r.unwrap_err()) }}));
        };
        let run = || -> Result<OutEntries, String> {
            match cfg.creator {
                0 => run_with(cfg, LogCreator { next: RefCell::new(0), log: pending.clone(), capture: None }, inserts, on_insert),
                1 => run_with(cfg, CursorVec, inserts, on_insert),
                _ => run_with(cfg, TempFileChunk, inserts, on_insert),
            }
        };
        let r = if cfg.threads > 0 {
            // The closure runs on one pool thread while this thread blocks in `install`, so its
            // Rc/RefCell captures are never accessed concurrently.
            let pool = rayon::ThreadPoolBuilder::new().num_threads(cfg.threads).build().unwrap();
            let run = AssertSend(run);
            catch_unwind(AssertUnwindSafe(|| pool.install(move || run.call())))
        } else {
            catch_unwind(AssertUnwindSafe(run))
        };
        r
    };
    for e in acc.borrow_mut().drain(..) {
        out.ev(e);
    }
    for e in pending.borrow_mut().drain(..) {
        out.ev(e);
    }
    match res {
        Ok(Ok(entries)) => {
            let named: Vec<Value> = entries
                .iter()
                .map(|(k, v)| {
                    let kid = dict.strs.binary_search(k).map(|i| i as i64 + 1).unwrap_or(0);
                    json!({"k": kid, "v": if cfg.join && !cfg.first { parse_joined(v) } else { parse_tokens(v) }})
                })
                .collect();
            out.ev(json!({"ev": "SOut", "res": "ok", "mode": cfg.mode, "entries": named}));
        }
        Ok(Err(e)) => out.ev(json!({"ev": "SOut", "res": "err", "detail": e, "mode": cfg.mode, "entries": []})),
        Err(e) => out.ev(json!({"ev": "SOut", "res": "panic", "detail": panic_msg(e), "mode": cfg.mode, "entries": []})),
    }
}

fn key_universe(r: &mut R) -> Vec<Vec<u8>> {
    let n = r.gen_range(1..=16usize);
    let mut u: Vec<Vec<u8>> = vec![vec![]];
    u.extend(alpha_strings(2).into_iter().filter(|_| r.gen_bool(0.4)));
    u.push(long_key(1));
    u.push(long_key(2));
    u.push(vec![0xFF; 3]);
    use rand::seq::SliceRandom;
    u.shuffle(r);
    u.truncate(n);
    u
}

pub fn random_scfg(r: &mut R, small_scale: bool) -> SCfg {
    let chunk = Cfg {
        codec: *pick(r, &[0u8, 0, 5, 1, 3, 2, 4]),
        level: 0,
        block_size: *pick(r, &[0usize, 1024, 4096]),
        interval: *pick(r, &[1usize, 3, 8]),
        levels: *pick(r, &[0u8, 0, 1, 2, 3, 4]),
    };
    let hook = if small_scale {
        // budgets on, just below and well below the capacities the doubling buffer can take
        let t = if r.gen_bool(0.5) {
            *pick(r, &[128usize, 200, 256, 500, 1000, 1024, 2048, 4099, 8192])
        } else {
            let m = r.gen_range(7..=13u32);
            ((1usize << m) as f64 * r.gen_range(0.5..1.0)) as usize
        };
        let init = *pick(r, &[32usize, 32, 48, 64, 64, 100, 128, t / 2, t]);
        Some((t, init.max(16)))
    } else {
        None
    };
    SCfg {
        hook,
        requested: *pick(r, &[0usize, 10_485_760, 10_485_765, 12_000_000]),
        realloc: r.gen_bool(0.5),
        maxc: *pick(r, &[1usize, 2, 3, 5, 25]),
        stable: r.gen_bool(0.6),
        threads: *pick(r, &[0usize, 0, 0, 1, 2, 4]),
        chunk,
        creator: *pick(r, &[0u8, 0, 0, 1, 2]),
        mode: r.gen_range(0..3),
        join: r.gen_bool(0.4),
        first: false,
        retry: false,
    }
}

/// C07: arbitrary insert sequences with duplicates, entry sizes from empty to larger than the buffer.
pub fn scn_sorter(out: &mut TraceOut, r: &mut R, idx: u64, heavy: bool) {
    let mut cfg = random_scfg(r, true);
    let (t, _) = cfg.hook.unwrap();
    let uni = key_universe(r);
    cfg.first = idx % 6 == 4;
    let n = match idx % 4 {
        0 => r.gen_range(0..12),
        1 => r.gen_range(10..120),
        _ => r.gen_range(50..if heavy { 3000 } else { 600 }),
    };
    // corner: one key inserted thousands of times within a single in-memory batch
    if idx % 41 == 7 {
        cfg.hook = Some((1 << 17, 1 << 16));
        cfg.threads = 0;
        let key = vec![b'd', b'u', b'p'];
        let n = 2600 + (idx as usize % 5) * 300;
        let inserts: Vec<Entry> = (0..n).map(|i| (if i % 97 == 0 { vec![b'z'] } else { key.clone() }, stoken(i as u32 + 1, if i % 3 == 0 { 0 } else { 8 }))).collect();
        let ids: Vec<u32> = (1..=n as u32).collect();
        run_logged(out, &cfg, &inserts, &ids);
        return;
    }
    // corner: a sorter built with nothing but defaults (1 GiB budget, 25 chunks, stable, realloc)
    if idx % 41 == 11 {
        let n = 500;
        let keys: Vec<Vec<u8>> = (0..40u32).map(|i| i.to_be_bytes().to_vec()).collect();
        let inserts: Vec<Entry> = (0..n).map(|i| (pick(r, &keys).clone(), stoken(i as u32 + 1, *pick(r, &[0usize, 8, 30])))).collect();
        let dict = Dict::build(inserts.iter().map(|(k, _)| k.clone()));
        out.ev(dict.event());
        out.ev(json!({"ev": "SCfg", "teff": 1073741824, "hook": false, "init": 131072, "realloc": true, "maxc": 25, "stable": true,
                      "mf": "concat", "threads": 0, "creator": 1, "mode": 0, "defaults": true}));
        let rec = Recorder { mf: Mf::Concat, calls: RefCell::new(Vec::new()) };
        let res = catch_unwind(AssertUnwindSafe(|| -> Result<OutEntries, String> {
            let mut sorter = Sorter::builder(&rec).chunk_creator(CursorVec).build();
            for (k, v) in &inserts {
                sorter.insert(k, v).map_err(|e| e.to_string())?;
            }
            let mut it = sorter.into_stream_merger_iter().map_err(|e| e.to_string())?;
            let mut o = Vec::new();
            while let Some((k, v)) = it.next().map_err(|e| e.to_string())? {
                o.push((k.to_vec(), v.to_vec()));
            }
            Ok(o)
        }));
        for (i, (k, v)) in inserts.iter().enumerate() {
            out.ev(json!({"ev": "SIns", "k": dict.id(k), "id": if v.is_empty() { 0 } else { i as i64 + 1 }, "size": k.len() + v.len(), "res": "ok"}));
        }
        match res {
            Ok(Ok(entries)) => {
                let named: Vec<Value> = entries.iter().map(|(k, v)| json!({"k": dict.strs.binary_search(k).map(|i| i as i64 + 1).unwrap_or(0), "v": parse_tokens(v)})).collect();
                out.ev(json!({"ev": "SOut", "res": "ok", "mode": 0, "entries": named}));
            }
            _ => out.ev(json!({"ev": "SOut", "res": "failed", "mode": 0, "entries": []})),
        }
        return;
    }
    // corner: chunks of ~100 entries with 300-byte keys and deep index trees
    if idx % 41 == 9 {
        cfg.hook = Some((40_000, 1024));
        cfg.chunk = Cfg { codec: 0, level: 0, block_size: 1024, interval: *pick(r, &[1usize, 8]), levels: *pick(r, &[3u8, 4]) };
        let n = 700;
        let inserts: Vec<Entry> = (0..n).map(|i| (long_key(r.gen_range(0..300u32)), stoken(i as u32 + 1, *pick(r, &[0usize, 8, 9])))).collect();
        let ids: Vec<u32> = (1..=n as u32).collect();
        run_logged(out, &cfg, &inserts, &ids);
        return;
    }
    // corner: only empty-key / empty-value entries
    let only_empty = idx % 37 == 5;
    let mut inserts = Vec::new();
    let mut ids = Vec::new();
    for i in 0..n {
        let k = if only_empty { vec![] } else { pick(r, &uni).clone() };
        let len = if only_empty {
            0
        } else {
            match r.gen_range(0..100) {
                0..=14 => 0,
                15..=69 => r.gen_range(8..40),
                70..=89 => r.gen_range(8..t / 2 + 9),
                90..=96 => r.gen_range(t / 2..2 * t),
                _ => (3 * t + r.gen_range(0..40)).min(60000),
            }
        };
        inserts.push((k, stoken(i as u32 + 1, len)));
        ids.push(i as u32 + 1);
    }
    if idx % 37 == 5 {
        cfg.mode = (idx / 37 % 3) as u8;
    }
    run_logged(out, &cfg, &inserts, &ids);
}

/// C08: entries with key + value + 16 <= T/4, long runs with many spills, instrumented creator.
pub fn scn_spill(out: &mut TraceOut, r: &mut R, _idx: u64, heavy: bool) {
    let mut cfg = random_scfg(r, true);
    cfg.creator = 0;
    cfg.chunk.codec = *pick(r, &[0u8, 5]);
    let (t, _) = cfg.hook.unwrap();
    if _idx % 4 == 3 {
        // the chunk creator fails once (k-th creation); the caller retries the insert and goes on
        cfg.retry = true;
        let k = r.gen_range(1..6);
        crate::io::reset(crate::io::Sched::Whole, crate::io::Sched::Whole,
            Some(crate::io::Fault { comp: "create".into(), k, kind: "create:io".into() }));
    }
    let max_e = (t / 4).saturating_sub(16);
    let uni: Vec<Vec<u8>> = key_universe(r).into_iter().filter(|k| k.len() <= max_e / 2).collect();
    let mut uni = if uni.is_empty() { vec![vec![]] } else { uni };
    if _idx % 5 == 1 {
        // one or two keys inserted over and over under a collapsing merge function: every spilled
        // chunk is tiny compared with the volume inserted (the chunk limit must hold all the same)
        cfg.first = true;
        cfg.maxc = *pick(r, &[1usize, 2, 2, 3]);
        uni.truncate(*pick(r, &[1usize, 1, 2]));
        if uni[0].len() > 8 {
            uni[0] = vec![b'k'];
        }
    }
    let spills = if heavy { r.gen_range(50..400) } else { r.gen_range(5..60) };
    let volume = spills * t;
    let mut inserts = Vec::new();
    let mut ids = Vec::new();
    let mut total = 0usize;
    let shape = r.gen_range(0..3);
    while total < volume && inserts.len() < 40_000 {
        let k = pick(r, &uni).clone();
        let room = max_e - k.len();
        let len = match shape {
            0 => r.gen_range(0..=room),
            1 => room, // always the largest allowed entry
            _ => *pick(r, &[0usize, 8, 9, room / 2, room]),
        };
        let len = if len > 0 && len < 8 { 0 } else { len };
        let i = inserts.len() as u32 + 1;
        total += k.len() + len + 16;
        inserts.push((k, stoken(i, len)));
        ids.push(i);
    }
    run_logged(out, &cfg, &inserts, &ids);
}

/// Real thresholds (10 MiB minimum budget) through the public API only (no hook involved in
/// the budget): `dump_threshold(requested)`, both reallocation policies, a few entries of up to a
/// quarter of the budget so that a run needs only a few dozen inserts.
pub fn scn_sorter_real(out: &mut TraceOut, r: &mut R, idx: u64, _small_entries: bool) {
    let mut cfg = random_scfg(r, false);
    cfg.creator = 0;
    cfg.chunk.codec = 0;
    cfg.chunk.block_size = 65536;
    cfg.threads = 0;
    cfg.realloc = idx % 2 == 0;
    cfg.requested = *pick(r, &[0usize, 10_485_760, 10_485_765, 12_000_000, 15_000_000, 17_000_000, 20_000_000]);
    let t = cfg.teff();
    let uni: Vec<Vec<u8>> = (0..50u32).map(|i| i.to_be_bytes().to_vec()).collect();
    // enough volume to pass twice the buffer the policy allows, plus a bit
    let target = if cfg.realloc { t * 5 } else { t * 3 } + r.gen_range(0..t);
    let max_e = t / 4 - 16 - 4;
    let shape = r.gen_range(0..4);
    let mut inserts = Vec::new();
    let mut ids = Vec::new();
    let mut total = 0usize;
    while total < target {
        let k = pick(r, &uni).clone();
        let len = match shape {
            0 => max_e,
            1 => *pick(r, &[1_000_000usize, 1_000_000, 3_000_000.min(max_e)]),
            2 => r.gen_range(8..=max_e),
            _ => *pick(r, &[0usize, 8, 100_000, 1_048_576, max_e / 2, max_e]),
        };
        let i = inserts.len() as u32 + 1;
        total += k.len() + len + 16;
        inserts.push((k, stoken(i, len)));
        ids.push(i);
    }
    run_logged(out, &cfg, &inserts, &ids);
}

/// C14 / C17: an entry whose key or value length sits on a framing boundary (or whose payload lands
/// on / just below a power of two) as the FIRST entry of a fresh sorter with its real default
/// budget: the buffer has to grow from its initial capacity to the entry, the entry is then
/// dumped, read back and merged like any other.
pub fn scn_sorter_framing(out: &mut TraceOut, r: &mut R, idx: u64, _heavy: bool) {
    let lens: [usize; 14] = [127, 128, 129, 16383, 16384, 16385, 262143, 262144, 2097135, 2097136, 2097151, 2097152, 2097153, 4194296];
    let i = idx as usize;
    let len = lens[i % lens.len()];
    let (kl, vl) = match (i / lens.len()) % 3 {
        0 => (0, len),
        1 => (len, 0),
        _ => (1, len - 1),
    };
    let mut cfg = random_scfg(r, false);
    cfg.creator = 1;
    cfg.chunk.codec = 0;
    cfg.chunk.block_size = 65536;
    cfg.threads = 0;
    cfg.requested = 0;
    cfg.stable = true;
    cfg.join = false;
    cfg.first = false;
    cfg.realloc = (i / (3 * lens.len())) % 2 == 0;
    let inserts: Vec<Entry> = vec![(vec![5u8; kl], stoken(1, vl)), (vec![9u8], stoken(2, 8)), (vec![5u8; kl], stoken(3, 9))];
    run_logged(out, &cfg, &inserts, &[1, 2, 3]);
}

/// C17: sorter runs under the allocation monitor, with the buffer accounting (hook H2) logged
/// after every insert. Entry sizes: empty, tiny, exactly filling the buffer, one byte more than
/// what is left, larger than the whole buffer; repeated growth from a 32-byte buffer.
pub fn scn_alloc(out: &mut TraceOut, r: &mut R, idx: u64, heavy: bool) {
    use crate::alloc;
    let mut cfg = random_scfg(r, true);
    cfg.creator = 0;
    cfg.threads = 0;
    let (mut t, mut init) = cfg.hook.unwrap();
    if idx % 3 == 0 {
        // budgets that are not multiples of the 16-byte bound size
        t += *pick(r, &[1usize, 5, 8, 15]);
        if !cfg.realloc {
            init = t;
        }
    }
    cfg.hook = Some((t, init));
    let fail_growth = idx % 5 == 4;
    let n = r.gen_range(5..if heavy { 400 } else { 120 });
    let plan: Vec<u8> = (0..n).map(|_| r.gen_range(0..100u8)).collect();
    let keys: Vec<Vec<u8>> = vec![vec![], vec![1], vec![2, 2], vec![3; 9], long_key(7)];
    out.ev(cfg.json());
    let before_all = alloc::snapshot();
    let mut after_first = alloc::snapshot();
    let mut last_res = String::new();
    for round in 0..2 {
        let mut events: Vec<Value> = Vec::new();
        let res = catch_unwind(AssertUnwindSafe(|| -> Result<usize, String> {
            let rec = Recorder { mf: Mf::Concat, calls: RefCell::new(Vec::new()) };
            let pending: Pending = Rc::new(RefCell::new(Vec::new()));
            let mut b = Sorter::builder(&rec);
            b.allow_realloc(cfg.realloc).max_nb_chunks(cfg.maxc).verif_budget(t, init);
            b.sort_algorithm(if cfg.stable { SortAlgorithm::Stable } else { SortAlgorithm::Unstable });
            b.chunk_compression_type(codec_of(cfg.chunk.codec)).index_levels(cfg.chunk.levels);
            let mut sorter = b.chunk_creator(LogCreator { next: RefCell::new(0), log: pending.clone(), capture: None }).build();
            for (i, p) in plan.iter().enumerate() {
                let (cap, elen, nb, _) = sorter.verif_accounting();
                let free = cap.saturating_sub(elen + 16 * nb);
                let k = keys[i % keys.len()].clone();
                let room = free.saturating_sub(16 + k.len());
                let vlen = match *p {
                    0..=9 => 0,
                    10..=39 => (i * 7) % 40,
                    40..=59 => room,                 // exactly fills the buffer
                    60..=69 => room + 1,             // one byte too many
                    70..=79 => room.saturating_sub(1),
                    80..=89 => cap + 3,              // larger than the whole buffer
                    90..=93 => 2 * cap + 17,
                    // growth whose payload lands on / just below a power of two above the capacity:
                    // the bound of the entry (16 bytes) must be part of the size asked for
                    94..=96 => {
                        let m = (cap + 1).next_power_of_two() << (i % 2);
                        m.saturating_sub(elen + k.len() + [0usize, 1, 8, 15, 16, 17][i % 6])
                    }
                    _ => (t / 4).saturating_sub(16 + k.len()),
                };
                let failing_step = fail_growth && i == plan.len() * 2 / 3;
                let vlen = if failing_step { cap + 3 } else { vlen };
                let v = vec![0x5Au8; vlen.min(70_000)];
                // every so often the allocator refuses the next doubling of the buffer: the sorter
                // must fail cleanly (a panic), and what it frees while unwinding is checked too
                if failing_step {
                    alloc::FAIL_EXACT.store(((2 * cap + 15) / 16 * 16) as u64, std::sync::atomic::Ordering::Relaxed);
                }
                let r = sorter.insert(&k, &v);
                alloc::FAIL_EXACT.store(0, std::sync::atomic::Ordering::Relaxed);
                r.map_err(|e| e.to_string())?;
                let (cap, elen, nb, chunks) = sorter.verif_accounting();
                if round == 0 {
                    events.push(json!({"ev": "Acct", "cap": cap, "elen": elen, "nb": nb, "chunks": chunks, "size": k.len() + v.len()}));
                }
                rec.calls.borrow_mut().clear();
                pending.borrow_mut().clear();
            }
            let mut it = sorter.into_stream_merger_iter().map_err(|e| e.to_string())?;
            let mut count = 0;
            while let Some(_) = it.next().map_err(|e| e.to_string())? {
                count += 1;
            }
            pending.borrow_mut().clear();
            Ok(count)
        }));
        for e in events {
            out.ev(e);
        }
        last_res = match res {
            Ok(Ok(_)) => "ok".to_string(),
            Ok(Err(e)) => format!("err: {}", e),
            Err(e) => format!("panic: {}", panic_msg(e)),
        };
        if round == 0 {
            after_first = alloc::snapshot();
        }
    }
    let end = alloc::snapshot();
    let overflow = last_res.contains("overflow");
    out.ev(json!({"ev": "ARun", "res": if last_res.starts_with("panic") { "panic" } else if last_res == "ok" { "ok" } else { "err" },
                  "overflow": overflow, "detail": last_res, "alloc_failures_injected": alloc::FAILED.load(std::sync::atomic::Ordering::Relaxed)}));
    let (ma, mf) = alloc::first_mismatch();
    out.ev(json!({"ev": "AllocSummary", "allocs": end.allocs - before_all.allocs,
                  "mismatch": end.mismatch - before_all.mismatch, "guard": end.guard - before_all.guard,
                  "double_free": end.double_free - before_all.double_free, "bad_magic": end.bad_magic - before_all.bad_magic,
                  "leaked_class": end.live_class - after_first.live_class,
                  "first_mismatch": [ma, mf]}));
}

/// C15 / C09 on the files the sorter itself writes: every chunk (freshly spilled or produced by
/// a chunk merge) is captured when it is dropped, decoded independently and logged for TLC.
pub fn scn_chunks(out: &mut TraceOut, r: &mut R, _idx: u64, heavy: bool) {
    let chunk = Cfg {
        codec: *pick(r, &[0u8, 0, 5, 3]),
        level: 0,
        block_size: *pick(r, &[0usize, 1024, 1500, 2048, 4096]),
        interval: *pick(r, &[1usize, 3, 8]),
        levels: *pick(r, &[0u8, 1, 2, 2, 3]),
    };
    let t = *pick(r, &[8192usize, 12000, 20000, 32768]);
    let init = *pick(r, &[64usize, 1024, t]);
    let maxc = *pick(r, &[1usize, 2, 2, 3, 5]);
    let realloc = r.gen_bool(0.5);
    let n = r.gen_range(200..if heavy { 4000 } else { 900 });
    let long = r.gen_bool(0.5);
    let nkeys = r.gen_range(20..400u32);
    let inserts: Vec<Entry> = (0..n)
        .map(|i| {
            let k = r.gen_range(0..nkeys);
            let key = if long { long_key(k) } else { k.to_be_bytes().to_vec() };
            (key, stoken(i as u32 + 1, *pick(r, &[0usize, 8, 20, 60, 130, 300])))
        })
        .collect();
    let captured: Captured = Rc::new(RefCell::new(Vec::new()));
    let pending: Pending = Rc::new(RefCell::new(Vec::new()));
    let res = catch_unwind(AssertUnwindSafe(|| -> Result<(), String> {
        let rec = Recorder { mf: Mf::Concat, calls: RefCell::new(Vec::new()) };
        let mut b = Sorter::builder(&rec);
        b.allow_realloc(realloc).max_nb_chunks(maxc).verif_budget(t, init);
        b.chunk_compression_type(codec_of(chunk.codec))
            .block_size(chunk.block_size)
            .index_key_interval(NonZeroUsize::new(chunk.interval).unwrap())
            .index_levels(chunk.levels);
        let mut sorter = b.chunk_creator(LogCreator { next: RefCell::new(0), log: pending.clone(), capture: Some(captured.clone()) }).build();
        for (k, v) in &inserts {
            sorter.insert(k, v).map_err(|e| e.to_string())?;
            rec.calls.borrow_mut().clear();
        }
        let cursors = sorter.into_reader_cursors().map_err(|e| e.to_string())?;
        drop(cursors);
        Ok(())
    }));
    pending.borrow_mut().clear();
    let dict = Dict::build(inserts.iter().map(|(k, _)| k.clone()));
    out.ev(dict.event());
    let ok = matches!(res, Ok(Ok(())));
    out.ev(json!({"ev": "ChunkRun", "res": if ok { "ok" } else { "failed" }, "chunks": captured.borrow().len(),
                  "cfg": chunk.json(), "t": t, "maxc": maxc}));
    let empty = std::collections::HashMap::new();
    for bytes in captured.borrow().iter() {
        if bytes.len() < 22 {
            out.ev(json!({"ev": "Chunk", "codec": chunk.codec, "levels": chunk.levels, "bs": chunk.logged_block_size(), "k": chunk.interval.min(1 << 30),
                          "file": {"size": bytes.len(), "trailer": [], "blocks": [], "slack": 0, "error": "too short"}}));
            continue;
        }
        let raw = crate::decode::decode(bytes, 22);
        let kid = |k: &[u8]| -> i64 { dict.strs.binary_search_by(|x| x.as_slice().cmp(k)).map(|i| i as i64 + 1).unwrap_or(0) };
        out.ev(json!({"ev": "Chunk", "codec": chunk.codec, "levels": chunk.levels, "bs": chunk.logged_block_size(), "k": chunk.interval.min(1 << 30),
                      "file": crate::decode::to_json(&raw, &kid, &empty)}));
    }
}

/// Spec -> implementation for the sorter's buffer accounting: size sequences generated by TLC
/// (tlc -simulate on Sorter.tla) are replayed on the real sorter configured through hook H2; the
/// accounting reported after every insert is logged (judged by TraceAlloc / compared by
/// TraceSorterB) and compared here with the values the model printed (drift).
pub fn replay_sseq(out: &mut TraceOut, doc: &Value) -> (u64, u64) {
    let t = doc["T"].as_u64().unwrap() as usize;
    let init = doc["InitCap"].as_u64().unwrap() as usize;
    let realloc = doc["Realloc"].as_bool().unwrap();
    let maxc = doc["MaxChunks"].as_u64().unwrap() as usize;
    let mut compared = 0u64;
    let mut drift = 0u64;
    for (si, seq) in doc["seqs"].as_array().unwrap().iter().enumerate() {
        out.begin(&format!("sseq/{}/{}", doc["name"].as_str().unwrap_or("s"), si));
        out.ev(json!({"ev": "SCfg", "teff": t, "hook": true, "init": init, "realloc": realloc, "maxc": maxc,
                      "stable": true, "mf": "concat", "threads": 0, "creator": 0, "mode": 0}));
        let mut events: Vec<Value> = Vec::new();
        let res = catch_unwind(AssertUnwindSafe(|| -> Result<(), String> {
            let rec = Recorder { mf: Mf::Concat, calls: RefCell::new(Vec::new()) };
            let pending: Pending = Rc::new(RefCell::new(Vec::new()));
            let mut b = Sorter::builder(&rec);
            b.allow_realloc(realloc).max_nb_chunks(maxc).verif_budget(t, init);
            let mut sorter = b.chunk_creator(LogCreator { next: RefCell::new(0), log: pending.clone(), capture: None }).build();
            for step in seq.as_array().unwrap() {
                let sz = step[0].as_u64().unwrap() as usize;
                let v = vec![0x33u8; sz];
                sorter.insert(b"", &v).map_err(|e| e.to_string())?;
                let (cap, elen, nb, chunks) = sorter.verif_accounting();
                events.push(json!({"ev": "Acct", "cap": cap, "elen": elen, "nb": nb, "chunks": chunks, "size": sz}));
                compared += 1;
                if step[1].as_u64() != Some(cap as u64) || step[2].as_u64() != Some(elen as u64)
                    || step[3].as_u64() != Some(nb as u64) || step[4].as_u64() != Some(chunks as u64) {
                    drift += 1;
                }
                rec.calls.borrow_mut().clear();
                pending.borrow_mut().clear();
            }
            let mut it = sorter.into_stream_merger_iter().map_err(|e| e.to_string())?;
            while let Some(_) = it.next().map_err(|e| e.to_string())? {}
            pending.borrow_mut().clear();
            Ok(())
        }));
        for e in events {
            out.ev(e);
        }
        let detail = match res {
            Ok(Ok(())) => "ok".to_string(),
            Ok(Err(e)) => format!("err: {}", e),
            Err(e) => format!("panic: {}", panic_msg(e)),
        };
        out.ev(json!({"ev": "ARun", "res": if detail == "ok" { "ok" } else if detail.starts_with("panic") { "panic" } else { "err" },
                      "overflow": detail.contains("overflow"), "detail": detail}));
    }
    (compared, drift)
}

//! Cursor scenarios on real files: scans (C01), seeks on fresh/reset cursors (C02),
//! arbitrary histories with clones (C03), the same on V1 files (C10), block loads (C16).
use crate::files::*;
use crate::util::*;
use grenad::{Reader, ReaderCursor};
use rand::Rng;
use serde_json::{json, Value};
use std::cell::RefCell;
use std::collections::HashMap;
use std::io::{self, Read, Seek, SeekFrom};
use std::panic::{catch_unwind, AssertUnwindSafe};
use std::rc::Rc;

#[derive(Default, Debug, Clone)]
pub struct Stats {
    pub abs_seeks: u64,
    pub end_seeks: u64,
    pub reads: u64,
    pub read_bytes: u64,
    /// (offset, len) of every read
    pub ranges: Vec<(u64, u64)>,
    pub record_ranges: bool,
}

/// Instrumented, cloneable in-memory source.
#[derive(Clone)]
pub struct Src {
    pub data: Rc<Vec<u8>>,
    pub pos: u64,
    pub stats: Rc<RefCell<Stats>>,
}

impl Src {
    pub fn new(data: Rc<Vec<u8>>) -> Src {
        Src { data, pos: 0, stats: Rc::new(RefCell::new(Stats::default())) }
    }
}

impl Read for Src {
    fn read(&mut self, buf: &mut [u8]) -> io::Result<usize> {
        if let Some(kind) = crate::io::on_call("src.read") {
            return Err(crate::io::io_error(&kind));
        }
        let len = self.data.len() as u64;
        let start = self.pos.min(len) as usize;
        let mut n = buf.len().min(self.data.len() - start);
        if n > 0 {
            n = crate::io::plan(true, n)?;
        }
        buf[..n].copy_from_slice(&self.data[start..start + n]);
        let mut st = self.stats.borrow_mut();
        st.reads += 1;
        st.read_bytes += n as u64;
        if st.record_ranges && n > 0 {
            let p = self.pos;
            st.ranges.push((p, n as u64));
        }
        self.pos += n as u64;
        Ok(n)
    }
}

impl Seek for Src {
    fn seek(&mut self, pos: SeekFrom) -> io::Result<u64> {
        if let Some(kind) = crate::io::on_call("src.seek") {
            return Err(crate::io::io_error(&kind));
        }
        let len = self.data.len() as i64;
        let new = match pos {
            SeekFrom::Start(o) => {
                self.stats.borrow_mut().abs_seeks += 1;
                crate::io::note_block_load();
                o as i64
            }
            SeekFrom::End(d) => {
                self.stats.borrow_mut().end_seeks += 1;
                len + d
            }
            SeekFrom::Current(d) => self.pos as i64 + d,
        };
        if new < 0 {
            return Err(io::Error::new(io::ErrorKind::InvalidInput, "seek before start"));
        }
        self.pos = new as u64;
        Ok(self.pos)
    }
}

#[derive(Clone, Debug)]
pub enum Op {
    First,
    Last,
    Next,
    Prev,
    Ge(Vec<u8>),
    Le(Vec<u8>),
    Eq(Vec<u8>),
    Current,
    Reset,
}

impl Op {
    pub fn name(&self) -> &'static str {
        match self {
            Op::First => "first",
            Op::Last => "last",
            Op::Next => "next",
            Op::Prev => "prev",
            Op::Ge(_) => "ge",
            Op::Le(_) => "le",
            Op::Eq(_) => "eq",
            Op::Current => "current",
            Op::Reset => "reset",
        }
    }
    pub fn probe(&self) -> Option<&[u8]> {
        match self {
            Op::Ge(q) | Op::Le(q) | Op::Eq(q) => Some(q),
            _ => None,
        }
    }
}

/// The content the harness expects in a file, used only to *name* returned entries
/// (index of the inserted pair with exactly these bytes, -1 if there is none).
pub enum Content {
    List { entries: Vec<Entry>, index: HashMap<Vec<u8>, usize> },
    /// keys = 4-byte big-endian base + i*step, values = value_for(i+1, vlen)
    Arith { n: u32, base: u32, step: u32, vlen: usize },
}

impl Content {
    pub fn list(entries: Vec<Entry>) -> Content {
        let index = entries.iter().enumerate().map(|(i, (k, _))| (k.clone(), i)).collect();
        Content::List { entries, index }
    }
    pub fn len(&self) -> usize {
        match self {
            Content::List { entries, .. } => entries.len(),
            Content::Arith { n, .. } => *n as usize,
        }
    }
    /// 1-based index of the inserted pair equal to (k, v); -1 if none.
    pub fn name(&self, k: &[u8], v: &[u8]) -> i64 {
        match self {
            Content::List { entries, index } => match index.get(k) {
                Some(&i) if entries[i].1 == v => i as i64 + 1,
                _ => -1,
            },
            Content::Arith { n, base, step, vlen } => {
                if k.len() != 4 {
                    return -1;
                }
                let x = u32::from_be_bytes([k[0], k[1], k[2], k[3]]);
                if x < *base || (x - base) % step != 0 {
                    return -1;
                }
                let i = (x - base) / step;
                if i >= *n || value_for(i + 1, *vlen) != v {
                    return -1;
                }
                i as i64 + 1
            }
        }
    }
    pub fn entry(&self, i: usize) -> Entry {
        match self {
            Content::List { entries, .. } => entries[i].clone(),
            Content::Arith { base, step, vlen, .. } => {
                ((base + i as u32 * step).to_be_bytes().to_vec(), value_for(i as u32 + 1, *vlen))
            }
        }
    }
}

/// Result naming: entry index, 0 = None, -2 = Err, -3 = panic.
pub const RES_ERR: i64 = -2;
pub const RES_PANIC: i64 = -3;

pub struct Session<'a> {
    pub out: &'a mut TraceOut,
    pub content: Content,
    pub dict: Option<Dict>,
    pub cursors: Vec<ReaderCursor<Src>>,
    pub stats: Rc<RefCell<Stats>>,
    pub data: Rc<Vec<u8>>,
    pub ops_done: u64,
    /// bytes the source delivered during the last executed operation (C16, volume form)
    pub last_bytes: u64,
}

impl<'a> Session<'a> {
    fn probe_id(&self, q: &[u8]) -> i64 {
        match &self.dict {
            Some(d) => d.id(q),
            None => {
                // arithmetic content: probes are 4-byte big-endian integers
                assert_eq!(q.len(), 4);
                u32::from_be_bytes([q[0], q[1], q[2], q[3]]) as i64
            }
        }
    }

    /// Opens the file and logs `Open`. Returns false if opening failed.
    pub fn open(&mut self) -> Option<Reader<Src>> {
        let src = Src { data: self.data.clone(), pos: 0, stats: self.stats.clone() };
        {
            let mut st = self.stats.borrow_mut();
            st.record_ranges = true;
            st.ranges.clear();
        }
        let r = catch_unwind(AssertUnwindSafe(|| Reader::new(src)));
        let (rmin, rbytes) = {
            let mut st = self.stats.borrow_mut();
            st.record_ranges = false;
            let rmin = st.ranges.iter().map(|(o, _)| *o).min().unwrap_or(self.data.len() as u64);
            let rbytes: u64 = st.ranges.iter().map(|(_, n)| *n).sum();
            st.ranges.clear();
            (rmin, rbytes)
        };
        let size = self.data.len();
        match r {
            Ok(Ok(reader)) => {
                let ver = match reader.file_version() {
                    grenad::FileVersion::FormatV1 => 1,
                    grenad::FileVersion::FormatV2 => 2,
                };
                // index_levels is not public; read it from the trailer bytes for the log.
                let n = self.data.len();
                let levels = if ver == 2 { self.data[n - 5] as i64 } else { 0 };
                self.out.ev(json!({"ev": "Open", "res": "ok", "len": reader.len(),
                    "codec": codec_id(reader.compression_type()), "ver": ver, "levels": levels,
                    "empty": reader.is_empty(), "size": size, "rmin": rmin, "rbytes": rbytes}));
                Some(reader)
            }
            Ok(Err(e)) => {
                self.out.ev(json!({"ev": "Open", "res": "err", "detail": format!("{}", e),
                    "len": 0, "codec": -1, "ver": 0, "levels": 0, "empty": false, "size": size, "rmin": rmin, "rbytes": rbytes}));
                None
            }
            Err(e) => {
                self.out.ev(json!({"ev": "Open", "res": "panic", "detail": panic_msg(e),
                    "len": 0, "codec": -1, "ver": 0, "levels": 0, "empty": false, "size": size, "rmin": rmin, "rbytes": rbytes}));
                None
            }
        }
    }

    /// New cursor from a fresh reader; returns its id (1-based).
    pub fn cursor(&mut self, log_open: bool) -> Option<usize> {
        let reader = if log_open {
            self.open()?
        } else {
            let src = Src { data: self.data.clone(), pos: 0, stats: self.stats.clone() };
            Reader::new(src).ok()?
        };
        let before = self.stats.borrow().abs_seeks + self.stats.borrow().reads;
        match reader.into_cursor() {
            Ok(c) => {
                let after = self.stats.borrow().abs_seeks + self.stats.borrow().reads;
                self.cursors.push(c);
                let id = self.cursors.len();
                self.out.ev(json!({"ev": "Cursor", "c": id, "res": "ok", "io": after - before}));
                Some(id)
            }
            Err(e) => {
                self.out.ev(json!({"ev": "Cursor", "c": 0, "res": "err", "detail": format!("{}", e), "io": 0}));
                None
            }
        }
    }

    /// Drops the most recently created cursor (must be `c`).
    pub fn forget(&mut self, c: usize) {
        assert_eq!(c, self.cursors.len());
        self.cursors.pop();
        self.out.ev(json!({"ev": "Forget", "c": c}));
    }

    pub fn clone_cursor(&mut self, c: usize) -> usize {
        let d = self.cursors[c - 1].clone();
        self.cursors.push(d);
        let id = self.cursors.len();
        self.out.ev(json!({"ev": "Clone", "c": c, "d": id}));
        id
    }

    /// Executes one operation on cursor c (1-based) and returns (named result, loads).
    pub fn exec(&mut self, c: usize, op: &Op) -> (i64, u64) {
        let content = &self.content;
        let cur = &mut self.cursors[c - 1];
        let before = self.stats.borrow().abs_seeks;
        let bytes_before = self.stats.borrow().read_bytes;
        let r = catch_unwind(AssertUnwindSafe(|| {
            let res = match op {
                Op::First => cur.move_on_first(),
                Op::Last => cur.move_on_last(),
                Op::Next => cur.move_on_next(),
                Op::Prev => cur.move_on_prev(),
                Op::Ge(q) => cur.move_on_key_greater_than_or_equal_to(q),
                Op::Le(q) => cur.move_on_key_lower_than_or_equal_to(q),
                Op::Eq(q) => cur.move_on_key_equal_to(q),
                Op::Current => Ok(cur.current()),
                Op::Reset => {
                    cur.reset();
                    Ok(None)
                }
            };
            match res {
                Ok(Some((k, v))) => content.name(k, v),
                Ok(None) => 0,
                Err(_) => RES_ERR,
            }
        }));
        let loads = self.stats.borrow().abs_seeks - before;
        self.last_bytes = self.stats.borrow().read_bytes - bytes_before;
        self.ops_done += 1;
        match r {
            Ok(x) => (x, loads),
            Err(_) => (RES_PANIC, loads),
        }
    }

    pub fn op(&mut self, c: usize, op: &Op) -> i64 {
        let (res, loads) = self.exec(c, op);
        let q = op.probe().map(|q| self.probe_id(q)).unwrap_or(0);
        self.out.ev(json!({"ev": "Op", "c": c, "op": op.name(), "q": q, "res": res, "loads": loads, "bytes": self.last_bytes}));
        res
    }

    /// One operation during which an armed source fault may fire (event OpF: the result may be
    /// RES_ERR, `fired` says whether the fault fired during this very call).
    pub fn op_f(&mut self, c: usize, op: &Op) -> i64 {
        let before = crate::io::fired();
        let (res, loads) = self.exec(c, op);
        let fired = crate::io::fired() && !before;
        let q = op.probe().map(|q| self.probe_id(q)).unwrap_or(0);
        self.out.ev(json!({"ev": "OpF", "c": c, "op": op.name(), "q": q, "res": res, "fired": fired, "loads": loads}));
        res
    }

    /// Whole scan from a fresh/reset cursor, logged as one event.
    pub fn scan(&mut self, c: usize, fwd: bool) {
        let mut out: Vec<i64> = Vec::new();
        let mut maxloads = 0;
        let mut maxbytes = 0;
        let limit = self.content.len() + 3;
        loop {
            let (res, loads) = self.exec(c, if fwd { &Op::Next } else { &Op::Prev });
            maxloads = maxloads.max(loads);
            maxbytes = maxbytes.max(self.last_bytes);
            if res == 0 {
                break;
            }
            out.push(res);
            if res < 0 || out.len() > limit {
                break;
            }
        }
        self.out.ev(json!({"ev": "Scan", "c": c, "dir": if fwd {"fwd"} else {"bwd"}, "out": out, "maxloads": maxloads, "maxbytes": maxbytes}));
    }
}

/// Probe strings covering every equivalence class of a content: each stored key, each gap,
/// before-first, after-last, plus prefixes / extensions / neighbours of stored keys.
pub fn probes_for(entries: &[Entry]) -> Vec<Vec<u8>> {
    let mut p: Vec<Vec<u8>> = vec![vec![], vec![0xFF; 5], vec![0xAB; 400]];
    for (k, _) in entries {
        p.push(k.clone());
        let mut a = k.clone();
        a.push(0x00);
        p.push(a);
        let mut b = k.clone();
        b.push(0xFF);
        p.push(b);
        if !k.is_empty() {
            p.push(k[..k.len() - 1].to_vec());
            let last = *k.last().unwrap();
            if last > 0 {
                let mut c = k.clone();
                *c.last_mut().unwrap() = last - 1;
                p.push(c);
            }
            if last < 255 {
                let mut c = k.clone();
                *c.last_mut().unwrap() = last + 1;
                p.push(c);
            }
        }
    }
    p.sort();
    p.dedup();
    p
}

pub struct Built {
    pub cfg: Cfg,
    pub entries: Vec<Entry>,
    pub outcome: WriteOutcome,
}

/// Writes a list-content file and logs Dict + Written. `ver` = 1 converts to a V1 file.
pub fn build_and_log(
    out: &mut TraceOut,
    cfg: &Cfg,
    entries: &[Entry],
    probes: &[Vec<u8>],
    ver: u8,
) -> (Dict, Option<Rc<Vec<u8>>>) {
    let dict = Dict::build(entries.iter().map(|(k, _)| k.clone()).chain(probes.iter().cloned()));
    out.ev(dict.event());
    let mut outcome = write_file(cfg, entries);
    // one random-file scenario in seven of the reader-side families reads a file that the 0.4.7
    // writer produced for the same content (the corner files keep the writer under test)
    let mut writer = "current";
    let mut logged_codec = cfg.codec;
    let idx = crate::files::SCN_IDX.with(|c| c.get());
    if crate::files::ALLOW_FOREIGN.with(|c| c.get()) && idx % 7 == 5 && idx as usize >= corner_count() && outcome.bytes.is_some() {
        if let Some(b) = write_file_foreign(cfg, entries) {
            // the codec the file declares is the old writer's business (its `Snappy` is not the id
            // this configuration names): what the reader must report is what the trailer says
            if b.len() >= 22 {
                logged_codec = b[b.len() - 22 + 8];
            }
            outcome.bytes = Some(b);
            writer = "0.4.7";
        }
    }
    let keys: Vec<i64> = entries.iter().map(|(k, _)| dict.id(k)).collect();
    out.ev(json!({"ev": "Written", "kind": "list", "keys": keys, "n": keys.len(), "base": 0, "step": 1,
        "codec": logged_codec, "levels": cfg.levels, "ver": ver, "cfg": cfg.json(), "writer": writer,
        "ins": outcome.ins, "fin": outcome.fin, "detail": outcome.detail,
        "maxblk": outcome.bytes.as_ref().map(|b| crate::decode::max_stored(b, 22)).unwrap_or(0),
        "size": outcome.bytes.as_ref().map(|b| b.len()).unwrap_or(0)}));
    let bytes = outcome.bytes.map(|b| if ver == 1 { to_v1(&b) } else { b });
    (dict, bytes.map(Rc::new))
}

fn new_session<'a>(out: &'a mut TraceOut, entries: Vec<Entry>, dict: Dict, data: Rc<Vec<u8>>) -> Session<'a> {
    Session {
        out,
        content: Content::list(entries),
        dict: Some(dict),
        cursors: Vec::new(),
        stats: Rc::new(RefCell::new(Stats::default())),
        data,
        ops_done: 0,
        last_bytes: 0,
    }
}

/// Deterministic corner files: the first scenarios of every family run on these, so that the
/// shapes a random draw rarely produces (a lone empty key, 255 index levels, an index level
/// >= 2 that really fills blocks, entries larger than a block ...) are always covered.
pub fn corner_count() -> usize {
    thread_local! { static N: std::cell::Cell<usize> = std::cell::Cell::new(0); }
    N.with(|n| {
        if n.get() == 0 {
            n.set(corner_files().len());
        }
        n.get()
    })
}

pub fn corner_files() -> Vec<(Cfg, Vec<Entry>)> {
    let c = |codec: u8, bs: usize, k: usize, l: u8| Cfg { codec, level: 0, block_size: bs, interval: k, levels: l };
    let e = |k: &[u8], v: &[u8]| (k.to_vec(), v.to_vec());
    let longs = |n: u32, vlen: usize| -> Vec<Entry> {
        (0..n).map(|i| (long_key(1 + 2 * i), value_for(i + 1, vlen))).collect()
    };
    let mut v: Vec<(Cfg, Vec<Entry>)> = Vec::new();
    // empty files
    v.push((c(0, 1024, 8, 0), vec![]));
    v.push((c(5, 1024, 8, 2), vec![]));
    // the empty key, alone and with neighbours; empty values
    v.push((c(0, 1024, 8, 0), vec![e(b"", b"")]));
    v.push((c(0, 1024, 1, 2), vec![e(b"", b"")]));
    v.push((c(5, 1024, 8, 1), vec![e(b"", b"x")]));
    v.push((c(0, 1024, 8, 0), vec![e(b"k", b"")]));
    v.push((c(0, 1024, 2, 1), vec![e(b"", b""), e(b"\x00", b""), e(b"\x00\x00", b""), e(b"\x01", b"")]));
    v.push((c(0, 1024, 1, 0), vec![e(b"", b"v"), e(b"\xff", b""), e(b"\xff\xff", b"w")]));
    // many tiny entries (2 bytes each) across several blocks
    v.push((c(0, 1024, 3, 2), {
        let mut ks = alpha_strings(3);
        ks.sort();
        ks.into_iter().map(|k| (k, vec![])).collect()
    }));
    // deep trees: 300-byte keys, 1 KiB blocks -> 4 children per index block
    v.push((c(0, 1024, 1, 2), longs(40, 0)));
    v.push((c(0, 1024, 2, 3), longs(70, 0)));
    v.push((c(0, 1024, 8, 3), longs(140, 0)));
    v.push((c(5, 1024, 1, 4), longs(140, 7)));
    v.push((c(0, 1024, 3, 4), longs(300, 0)));
    v.push((c(0, 1024, 8, 2), longs(33, 400)));
    // entries larger than a block
    v.push((c(0, 1024, 8, 1), (0..6u32).map(|i| ((i * 3).to_be_bytes().to_vec(), value_for(i + 1, 3000))).collect()));
    v.push((c(3, 1024, 1, 2), (0..9u32).map(|i| (long_key(i + 1), value_for(i + 1, 1100))).collect()));
    v.push((c(0, 4096, 8, 0), vec![(vec![7u8; 5000], value_for(1, 20000)), (vec![8u8; 1], value_for(2, 0))]));
    // extreme index depths
    v.push((c(0, 1024, 8, 255), (0..3u32).map(|i| (i.to_be_bytes().to_vec(), value_for(i + 1, 4))).collect()));
    v.push((c(0, 1024, 8, 254), (0..12u32).map(|i| (long_key(i), value_for(i + 1, 4))).collect()));
    v.push((c(5, 1024, 8, 7), longs(20, 0)));
    // every codec on a multi-block file
    for codec in 0..6u8 {
        v.push((c(codec, 1024, 2, 2), longs(25, 127)));
    }
    // a block larger than 64 KiB through every codec (codec-internal buffering limits)
    for codec in 0..6u8 {
        v.push((c(codec, 200_000, 8, 1), (0..150u32).map(|i| ((i * 2).to_be_bytes().to_vec(), value_for(i + 1, 1100))).collect()));
    }
    // key / value lengths on the framing boundaries 2^7, 2^14, 2^21 (-1, +0, +1)
    for (j, len) in [127usize, 128, 129, 16383, 16384, 16385, 2097151, 2097152, 2097153].iter().enumerate() {
        let j = j as u32;
        v.push((c(0, 1024, 8, (j % 3) as u8), vec![
            (vec![1u8], value_for(1, 3)),
            (vec![2u8], value_for(2, *len)),
            (vec![3u8; *len], value_for(3, 5)),
            (vec![4u8], value_for(4, 1)),
        ]));
    }
    // block-size corners
    for bs in [0usize, 1, 1023, 1025, 2000, 65536] {
        v.push((c(0, bs, 8, 2), (0..200u32).map(|i| ((i * 2).to_be_bytes().to_vec(), value_for(i + 1, 20))).collect()));
    }
    // deep tree with two blocks on index level 2 *and* several on level 3 (two entries per data block)
    v.push((c(0, 1024, 8, 3), longs(36, 400)));
    v.push((c(0, 1024, 1, 4), longs(24, 700)));
    // the smallest tree with two blocks on index level 2 (model-checked in the quick tier)
    v.push((c(0, 1024, 8, 2), longs(20, 0)));
    // NOTE: corner indices are referenced by spec/MCCursor_t<idx>.tla; append new corners below only.
    // extremely compressible blocks far larger than a block size (decompression buffer heuristics)
    for codec in 1..6u8 {
        v.push((c(codec, 1024, 8, 1), vec![(vec![1u8], vec![0x61u8; 300_000]), (vec![2u8], vec![0u8; 70_000]), (vec![3u8], b"abcabcabc".repeat(20_000))]));
    }
    // values that look like block offsets (8 bytes, big-endian, increasing): a reader guessing the
    // kind of a block from its content would take data blocks for index blocks
    v.push((c(0, 1024, 8, 0), (0..60u64).map(|i| ((i as u32 * 2).to_be_bytes().to_vec(), (i * 1000).to_be_bytes().to_vec())).collect()));
    v.push((c(5, 1024, 8, 0), vec![(vec![9u8; 3000], 0u64.to_be_bytes().to_vec())]));
    v.push((c(0, 1024, 1, 2), (0..40u64).map(|i| (long_key(i as u32 + 1), (i * 1256).to_be_bytes().to_vec())).collect()));
    // a small tree with two blocks on index level 2 (12 entries, two per data block): model-checked
    // in the quick tier
    v.push((c(0, 1024, 1, 2), longs(12, 400)));
    // index key intervals above the default 8 with many small entries per block
    v.push((c(0, 1024, 9, 0), (0..90u32).map(|i| ((i * 2).to_be_bytes().to_vec(), value_for(i + 1, 3))).collect()));
    v.push((c(0, 1024, 16, 1), (0..150u32).map(|i| ((i * 3).to_be_bytes().to_vec(), value_for(i + 1, 0))).collect()));
    v.push((c(5, 4096, 1000, 2), (0..260u32).map(|i| ((i * 2).to_be_bytes().to_vec(), value_for(i + 1, 7))).collect()));
    // the last insert dumps a data block AND the deepest index block, then the writer is finished
    v.push((c(0, 1024, 8, 2), longs(16, 0)));
    v.push((c(0, 1024, 8, 3), longs(32, 0)));
    v.push((c(5, 1024, 8, 2), longs(48, 0)));
    v.push((c(0, 1024, 8, 3), longs(64, 0)));
    // the highest compression levels (window sizes declared by the frame depend on the level)
    for (codec, level) in [(4u8, 19u32), (4, 20), (4, 22), (2, 9)] {
        let mut cf = c(codec, 1024, 8, 1);
        cf.level = level;
        v.push((cf, (0..8u32).map(|i| ((i * 2).to_be_bytes().to_vec(), value_for(i + 1, 300))).collect()));
    }
    // configuration values at the top of their domains
    v.push((c(0, usize::MAX, usize::MAX, 1), (0..300u32).map(|i| ((i * 2).to_be_bytes().to_vec(), value_for(i + 1, 50))).collect()));
    v.push((c(5, 1 << 40, 1, 0), (0..40u32).map(|i| (long_key(i + 1), value_for(i + 1, 100))).collect()));
    // the smallest files through every codec and several compression levels: the shortest
    // compressed blocks a codec can produce (a sanity bound on stored block sizes must allow them)
    for (codec, level) in [(1u8, 0u32), (2, 0), (2, 1), (2, 6), (3, 0), (4, 0), (4, 1), (4, 3)] {
        let mut cf = c(codec, 1024, 8, 0);
        cf.level = level;
        v.push((cf, vec![]));
    }
    for codec in 0..6u8 {
        v.push((c(codec, 1024, 8, 0), vec![e(b"a", b""), e(b"b", b""), e(b"c", b"")]));
    }
    for codec in 1..5u8 {
        v.push((c(codec, 1024, 8, if codec % 2 == 0 { 0 } else { 2 }), vec![e(b"\x00", b"")]));
    }
    // the empty key first, with a value that reaches the block size by itself (beyond it, and
    // landing exactly on it): a block whose only key is the empty key must be cut like any other
    v.push((c(0, 1024, 8, 0), vec![e(b"", &vec![b'z'; 2000]), e(b"a", b"x"), e(b"b", b"y")]));
    v.push((c(0, 1024, 8, 1), vec![e(b"", &vec![b'z'; 1009]), e(b"a", b"x"), e(b"b", b"y")]));
    v
}

/// Picks a content + configuration of the family: corner files first, then random draws.
pub fn random_file_capped(r: &mut R, idx: u64, heavy: bool, max_key: usize) -> (Cfg, Vec<Entry>) {
    let corners = corner_files();
    if (idx as usize) < corners.len() {
        let f = &corners[idx as usize];
        // TLC compares probe strings bytewise; megabyte-long keys are only used where no
        // probe derived from them is needed (round trips, layout)
        if f.1.iter().all(|(k, _)| k.len() <= max_key) {
            return f.clone();
        }
    }
    let kind = random_kind(r);
    let deep = r.gen_bool(0.5);
    let cfg = if deep { tree_cfg(r) } else { random_cfg(r, heavy) };
    let n = match kind {
        KeyKind::Alpha => r.gen_range(0..=60),
        KeyKind::Long => *pick(r, &[1usize, 2, 5, 13, 20, 33, 47, 70, 130]),
        KeyKind::Mixed => r.gen_range(2..=50),
        KeyKind::Counter => *pick(r, &[0usize, 1, 2, 3, 10, 100, 300]),
    };
    let big = r.gen_bool(0.3);
    let mut cfg = cfg;
    if cfg.levels >= 254 && n > 20 {
        // 255 index levels: one block load per level per operation; keep the file small
        cfg.levels = 7;
    }
    (cfg, gen_entries(r, kind, n, big))
}

pub fn random_file(r: &mut R, idx: u64, heavy: bool) -> (Cfg, Vec<Entry>) {
    random_file_capped(r, idx, heavy, usize::MAX)
}

/// C01: write, open, forward scan, backward scan.
pub fn scn_roundtrip(out: &mut TraceOut, r: &mut R, idx: u64, heavy: bool, ver: u8) {
    let (mut cfg, entries) = random_file(r, idx, heavy);
    if ver == 1 {
        cfg.levels = 0;
    }
    let (dict, data) = build_and_log(out, &cfg, &entries, &[], ver);
    let Some(data) = data else { return };
    let mut s = new_session(out, entries, dict, data);
    if let Some(c) = s.cursor(true) {
        s.scan(c, true);
    }
    if let Some(c) = s.cursor(true) {
        s.scan(c, false);
    }
}

/// C02: every probe class x {ge, le, eq} on a fresh cursor and on a reset cursor that
/// had been moved elsewhere.
pub fn scn_seeks(out: &mut TraceOut, r: &mut R, idx: u64, heavy: bool, ver: u8, max_probes: usize) {
    let (mut cfg, entries) = random_file_capped(r, idx, heavy, 20_000);
    if ver == 1 {
        cfg.levels = 0;
    }
    let mut probes = probes_for(&entries);
    if probes.len() > max_probes {
        use rand::seq::SliceRandom;
        probes.shuffle(r);
        probes.truncate(max_probes);
    }
    let (dict, data) = build_and_log(out, &cfg, &entries, &probes, ver);
    let Some(data) = data else { return };
    let n = entries.len();
    let mut s = new_session(out, entries, dict, data);
    let Some(moved) = s.cursor(true) else { return };
    for q in &probes {
        for kind in 0..3 {
            let op = match kind {
                0 => Op::Ge(q.clone()),
                1 => Op::Le(q.clone()),
                _ => Op::Eq(q.clone()),
            };
            // fresh cursor
            if let Some(c) = s.cursor(false) {
                s.op(c, &op);
                s.cursors.pop();
            }
            // reset cursor that was somewhere else before
            if n > 0 {
                match r.gen_range(0..4) {
                    0 => {
                        s.op(moved, &Op::First);
                    }
                    1 => {
                        s.op(moved, &Op::Last);
                    }
                    2 => {
                        let e = s.content.entry(r.gen_range(0..n)).0;
                        s.op(moved, &Op::Ge(e));
                    }
                    _ => {
                        s.op(moved, &Op::Last);
                        s.op(moved, &Op::Next);
                    }
                }
            }
            s.op(moved, &Op::Reset);
            s.op(moved, &op);
        }
    }
}

fn random_op(r: &mut R, probes: &[Vec<u8>]) -> Op {
    match r.gen_range(0..100) {
        0..=24 => Op::Next,
        25..=44 => Op::Prev,
        45..=52 => Op::First,
        53..=60 => Op::Last,
        61..=72 => Op::Ge(pick(r, probes).clone()),
        73..=82 => Op::Le(pick(r, probes).clone()),
        83..=88 => Op::Eq(pick(r, probes).clone()),
        89..=95 => Op::Current,
        _ => Op::Reset,
    }
}

/// C03: random histories with clones; runs of relative moves so that block and
/// index-block boundaries are crossed between absolute moves.
pub fn scn_history(out: &mut TraceOut, r: &mut R, idx: u64, heavy: bool, ver: u8, nops: usize) {
    let (mut cfg, entries) = random_file_capped(r, idx, heavy, 20_000);
    if ver == 1 {
        cfg.levels = 0;
    }
    let probes = probes_for(&entries);
    let (dict, data) = build_and_log(out, &cfg, &entries, &probes, ver);
    let Some(data) = data else { return };
    let mut s = new_session(out, entries, dict, data);
    let Some(c0) = s.cursor(true) else { return };
    // edge walk: on a warmed-up cursor, an exact seek on every (sampled) key followed by relative
    // moves in both directions -- every block edge, every index-table slot, both sides
    let n = s.content.len();
    if n > 0 && n <= 400 {
        let stride = (n / 60).max(1);
        let mut k = (idx as usize) % stride;
        while k < n {
            let key = s.content.entry(k).0;
            s.op(c0, &Op::Ge(pick(r, &probes).clone()));
            s.op(c0, &Op::Le(pick(r, &probes).clone()));
            match k % 3 {
                0 => s.op(c0, &Op::Eq(key)),
                1 => s.op(c0, &Op::Ge(key)),
                _ => s.op(c0, &Op::Le(key)),
            };
            if k % 2 == 0 {
                for op in [Op::Next, Op::Next, Op::Prev, Op::Prev, Op::Prev, Op::Current] {
                    s.op(c0, &op);
                }
            } else {
                for op in [Op::Prev, Op::Prev, Op::Next, Op::Next, Op::Next, Op::Current] {
                    s.op(c0, &op);
                }
            }
            k += stride;
        }
    }
    let mut live = vec![c0];
    let mut i = 0;
    while i < nops {
        let c = *pick(r, &live);
        if r.gen_ratio(1, 40) && live.len() < 4 {
            let d = s.clone_cursor(c);
            live.push(d);
            continue;
        }
        let op = random_op(r, &probes);
        let res = s.op(c, &op);
        i += 1;
        // bursts of relative moves in one direction
        if matches!(op, Op::Next | Op::Prev) && res > 0 && r.gen_bool(0.6) {
            let burst = r.gen_range(1..12);
            for _ in 0..burst {
                if s.op(c, &op) <= 0 {
                    break;
                }
                i += 1;
            }
        }
    }
}

/// C03 over histories that contain a call which returned Err: "first, last and seeks are unaffected
/// by anything done before them" -- a one-off source failure (read or seek, at the 1st..6th source
/// call from where it is armed) hits some call of a random history; the source works again
/// afterwards. What the hit call returns is C12's business; what relative moves and `current`
/// answer afterwards is left open (as after None); every later absolute move that returns Ok must
/// return the entry the content determines, and a reset cursor scans from the ends again.
pub fn scn_history_faulty(out: &mut TraceOut, r: &mut R, idx: u64, heavy: bool, nops: usize) {
    let (cfg, entries) = random_file_capped(r, idx, heavy, 20_000);
    let probes = probes_for(&entries);
    let (dict, data) = build_and_log(out, &cfg, &entries, &probes, 2);
    let Some(data) = data else { return };
    let mut s = new_session(out, entries, dict, data);
    let Some(c0) = s.cursor(true) else { return };
    let mut live = vec![c0];
    let mut i = 0;
    let mut armed = false;
    while i < nops {
        let c = *pick(r, &live);
        if r.gen_ratio(1, 40) && live.len() < 3 {
            let d = s.clone_cursor(c);
            live.push(d);
            continue;
        }
        if !armed && r.gen_ratio(1, 6) {
            let comp = if r.gen_bool(0.7) { "src.read" } else { "src.seek" };
            let kind = *pick(r, &["other", "eof", "denied", "timeout"]);
            crate::io::arm(comp, r.gen_range(1..7), kind);
            armed = true;
        }
        // relative moves (they cross blocks and reload index blocks) and absolute ones, mixed
        let op = if r.gen_bool(0.45) { if r.gen_bool(0.5) { Op::Next } else { Op::Prev } } else { random_op(r, &probes) };
        let res = s.op_f(c, &op);
        i += 1;
        if crate::io::fired() {
            // the fault has been delivered: from here on the source is healthy
            crate::io::disarm();
            armed = false;
            // the calls the statement singles out, right after the failure, on the same cursor
            for _ in 0..r.gen_range(1..4) {
                let a = match r.gen_range(0..5) {
                    0 => Op::First,
                    1 => Op::Last,
                    2 => Op::Ge(pick(r, &probes).clone()),
                    3 => Op::Le(pick(r, &probes).clone()),
                    _ => Op::Eq(pick(r, &probes).clone()),
                };
                s.op_f(c, &a);
                i += 1;
            }
        } else if matches!(op, Op::Next | Op::Prev) && res > 0 && r.gen_bool(0.6) {
            for _ in 0..r.gen_range(1..12) {
                if s.op_f(c, &op) <= 0 || crate::io::fired() {
                    break;
                }
                i += 1;
            }
        }
    }
    crate::io::disarm();
}

/// Big arithmetic file for C16 / C02 / C03 at scale: 4-byte counters, keys base + i*step.
pub fn scn_big(out: &mut TraceOut, r: &mut R, n: u32, nops: usize) {
    let step = *pick(r, &[1u32, 2, 7]);
    let base = r.gen_range(0..1000u32);
    let vlen = *pick(r, &[0usize, 4, 8, 40]);
    let cfg = Cfg {
        codec: *pick(r, &[0u8, 5, 3]),
        level: 0,
        block_size: *pick(r, &[1024usize, 4096, 8192]),
        interval: *pick(r, &[1usize, 8, 64]),
        levels: *pick(r, &[0u8, 1, 2, 3, 4]),
    };
    let content = Content::Arith { n, base, step, vlen };
    let mut w = cfg.builder().memory();
    let mut ins = "ok";
    for i in 0..n as usize {
        let (k, v) = content.entry(i);
        if w.insert(&k, &v).is_err() {
            ins = "err";
            break;
        }
    }
    let bytes = w.into_inner();
    out.ev(json!({"ev": "Written", "kind": "arith", "keys": [], "n": n, "base": base, "step": step,
        "codec": cfg.codec, "levels": cfg.levels, "ver": 2, "cfg": cfg.json(), "ins": ins,
        "fin": if bytes.is_ok() {"ok"} else {"err"}, "detail": "", "size": bytes.as_ref().map(|b| b.len()).unwrap_or(0),
        "maxblk": bytes.as_ref().map(|b| crate::decode::max_stored(b, 22)).unwrap_or(0)}));
    let Ok(bytes) = bytes else { return };
    let mut s = Session {
        out,
        content,
        dict: None,
        cursors: Vec::new(),
        stats: Rc::new(RefCell::new(Stats::default())),
        data: Rc::new(bytes),
        ops_done: 0,
        last_bytes: 0,
    };
    // long purely sequential scans (read-ahead or caching schemes only show after many crossings)
    if n <= 100_000 {
        if let Some(c) = s.cursor(true) {
            s.scan(c, true);
        }
        if let Some(c) = s.cursor(false) {
            s.scan(c, false);
        }
    }
    let Some(c) = s.cursor(true) else { return };
    let hi = base + n * step + 3;
    // failed seeks followed by relative moves that leave the loaded block (their results are
    // unspecified, their cost is not)
    let be = |x: u32| x.to_be_bytes().to_vec();
    for (target, fwd) in [(base + (n - 2) * step, false), (base + (n / 2) * step, true), (base + (n / 3) * step, false)] {
        s.op(c, &Op::Ge(be(target)));
        s.op(c, &Op::Ge(be(hi + 50)));
        for _ in 0..200 {
            s.op(c, if fwd { &Op::Next } else { &Op::Prev });
        }
        s.op(c, &Op::Eq(be(target)));
        s.op(c, &Op::Le(be(base.saturating_sub(1))));
        for _ in 0..120 {
            s.op(c, if fwd { &Op::Prev } else { &Op::Next });
        }
    }
    let mut i = 0;
    while i < nops {
        let q = |r: &mut R| (if r.gen_ratio(1, 12) { hi + 7 } else { r.gen_range(base.saturating_sub(2)..hi) }).to_be_bytes().to_vec();
        let op = match r.gen_range(0..100) {
            0..=29 => Op::Next,
            30..=49 => Op::Prev,
            50..=54 => Op::First,
            55..=59 => Op::Last,
            60..=74 => Op::Ge(q(r)),
            75..=86 => Op::Le(q(r)),
            87..=92 => Op::Eq(q(r)),
            93..=97 => Op::Current,
            _ => Op::Reset,
        };
        let res = s.op(c, &op);
        i += 1;
        if matches!(op, Op::Next | Op::Prev) && res > 0 {
            // long runs cross many block and index-block boundaries
            let burst = r.gen_range(1..400);
            for _ in 0..burst {
                if s.op(c, &op) <= 0 {
                    break;
                }
                i += 1;
            }
        }
    }
}

pub fn summary(out: TraceOut) -> Value {
    out.finish()
}

/// C14 through the public API: entries whose key and value lengths sit on the framing
/// boundaries (2^7, 2^14, 2^21 -1/+0/+1; 2^28 in the heavy tier), written and read back.
pub fn scn_framing(out: &mut TraceOut, r: &mut R, idx: u64, heavy: bool) {
    let lens: [usize; 13] = [0, 1, 127, 128, 129, 16383, 16384, 16385, 2097151, 2097152, 2097153, 4194304, 8388613];
    if heavy && idx % 29 == 27 {
        // a KEY on the 2^28 boundary (keys ordered by their first byte, see Dict::event)
        let kl = (1usize << 28) - 1 + (idx as usize / 29) % 3;
        let cfg = Cfg { codec: 0, level: 0, block_size: 1024, interval: 8, levels: 1 };
        let entries: Vec<Entry> = vec![(vec![1u8], value_for(1, 3)), (vec![5u8; kl], value_for(2, 9)), (vec![7u8], value_for(3, 0))];
        let (dict, data) = build_and_log(out, &cfg, &entries, &[], 2);
        let Some(data) = data else { return };
        let mut s = new_session(out, entries, dict, data);
        if let Some(c) = s.cursor(true) {
            s.scan(c, true);
        }
        if let Some(c) = s.cursor(true) {
            s.scan(c, false);
        }
        return;
    }
    let (kl, vl) = if heavy && idx % 29 == 28 {
        (4usize, (1usize << 28) - 1 + (idx as usize / 29) % 3)
    } else {
        (lens[(idx as usize) % 13], lens[(idx as usize / 13) % 13])
    };
    let cfg = Cfg { codec: 0, level: 0, block_size: *pick(r, &[1024usize, 8192]), interval: *pick(r, &[1usize, 8]), levels: *pick(r, &[0u8, 1, 2]) };
    let mut entries: Vec<Entry> = Vec::new();
    if kl > 0 {
        entries.push((vec![], value_for(1, 3)));
    }
    entries.push((vec![5u8; kl], value_for(2, vl)));
    // the shortest possible entry (both lengths 0) is also tried alone in its file
    if !(kl == 0 && vl == 0 && idx % 2 == 0) {
        let mut after = vec![5u8; kl];
        after.push(9);
        entries.push((after, value_for(3, kl % 7)));
    }
    let (dict, data) = build_and_log(out, &cfg, &entries, &[], 2);
    let Some(data) = data else { return };
    let mut s = new_session(out, entries, dict, data);
    if let Some(c) = s.cursor(true) {
        s.scan(c, true);
    }
    if let Some(c) = s.cursor(true) {
        s.scan(c, false);
    }
}

/// Realises a model probe on a real file: q = 2i is stored key i, q = 2i + 1 a byte string
/// strictly between key i and key i + 1 (before the first key for i = 0, after the last for i = n).
pub fn model_probe(entries: &[Entry], q: usize) -> Option<Vec<u8>> {
    let n = entries.len();
    if q % 2 == 0 {
        return entries.get(q / 2 - 1).map(|e| e.0.clone());
    }
    let i = q / 2;
    if i == 0 {
        // before the first key: only the empty string can be below a non-empty first key
        return if n == 0 || !entries[0].0.is_empty() { Some(vec![]) } else { None };
    }
    let mut g = entries[i - 1].0.clone();
    g.push(0);
    if i < n && g >= entries[i].0 {
        return None;
    }
    Some(g)
}

/// Spec -> implementation: replays histories printed by TLC from the CursorImpl model of a
/// corner file's tree on the real cursor over the same file (rebuilt now from the real writer).
/// With `extend`, every operation x probe is additionally tried from the state each history
/// reaches (on a clone), so every transition of the model is executed on the real code.
pub fn replay_histories(out: &mut TraceOut, corner: usize, hists: &[Vec<(String, usize, i64, u64)>], extend: bool, name: &str) -> (u64, u64) {
    let (cfg, entries) = corner_files()[corner].clone();
    let n = entries.len();
    let all_probes: Vec<(usize, Vec<u8>)> = (1..=2 * n + 1).filter_map(|q| model_probe(&entries, q).map(|p| (q, p))).collect();
    let mut drift = 0u64;
    let mut compared = 0u64;
    for (hi, h) in hists.iter().enumerate() {
        out.begin(&format!("{}/{}/{}", name, corner, hi));
        let probes: Vec<Vec<u8>> = all_probes.iter().map(|(_, p)| p.clone()).collect();
        let (dict, data) = build_and_log(out, &cfg, &entries, &probes, 2);
        let Some(data) = data else { continue };
        let mut s = new_session(out, entries.clone(), dict, data);
        let Some(c) = s.cursor(true) else { continue };
        let mk = |op: &str, q: usize| -> Option<Op> {
            Some(match op {
                "first" => Op::First,
                "last" => Op::Last,
                "next" => Op::Next,
                "prev" => Op::Prev,
                "current" => Op::Current,
                "reset" => Op::Reset,
                "ge" => Op::Ge(model_probe(&entries, q)?),
                "le" => Op::Le(model_probe(&entries, q)?),
                "eq" => Op::Eq(model_probe(&entries, q)?),
                _ => return None,
            })
        };
        let mut realizable = true;
        for (op, q, expect, expect_loads) in h {
            let Some(o) = mk(op, *q) else {
                realizable = false;
                break;
            };
            let (res, loads) = s.exec(c, &o);
            let qid = o.probe().map(|p| s.dict.as_ref().unwrap().id(p)).unwrap_or(0);
            s.out.ev(json!({"ev": "Op", "c": c, "op": o.name(), "q": qid, "res": res, "loads": loads, "bytes": s.last_bytes}));
            compared += 1;
            // Level-B comparison (drift): the model predicts the answer AND the number of block loads
            if res != *expect || loads != *expect_loads {
                drift += 1;
            }
        }
        if !realizable || !extend {
            continue;
        }
        for op in ["first", "last", "next", "prev", "current", "reset"] {
            let d = s.clone_cursor(c);
            s.op(d, &mk(op, 0).unwrap());
            s.forget(d);
        }
        for (q, _) in &all_probes {
            for op in ["ge", "le", "eq"] {
                let d = s.clone_cursor(c);
                s.op(d, &mk(op, *q).unwrap());
                s.forget(d);
            }
        }
    }
    (compared, drift)
}

/// C17 on the read paths: reader / iterator / merger scenarios run under the allocation monitor;
/// their own events go to a scratch trace, only the allocator summary is logged.
pub fn scn_alloc_readers(out: &mut TraceOut, r: &mut R, idx: u64, heavy: bool, scratch: &std::path::Path) {
    use crate::alloc;
    let before = alloc::snapshot();
    let mut after_first = before;
    let mut panicked = String::new();
    for round in 0..2 {
        let mut tmp = TraceOut::new(scratch, "scratch", 1);
        let mut rr = rng(idx, 4242);
        let res = catch_unwind(AssertUnwindSafe(|| {
            tmp.begin("scratch");
            match idx % 4 {
                0 => scn_history(&mut tmp, &mut rr, idx / 4, heavy, 2, 300),
                1 => scn_roundtrip(&mut tmp, &mut rr, idx / 4, heavy, 2),
                2 => crate::iters::scn_iters(&mut tmp, &mut rr, idx / 4, heavy, 2, true, true),
                _ => crate::merger::scn_merge(&mut tmp, &mut rr, idx / 4, heavy),
            }
        }));
        if let Err(e) = res {
            panicked = panic_msg(e);
        }
        drop(tmp.finish());
        if round == 0 {
            after_first = alloc::snapshot();
        }
    }
    let _ = r;
    let end = alloc::snapshot();
    let (ma, mf) = alloc::first_mismatch();
    out.ev(json!({"ev": "ARun", "res": if panicked.is_empty() { "ok" } else { "panic" }, "overflow": panicked.contains("overflow"), "detail": panicked}));
    out.ev(json!({"ev": "AllocSummary", "allocs": end.allocs - before.allocs,
                  "mismatch": end.mismatch - before.mismatch, "guard": end.guard - before.guard,
                  "double_free": end.double_free - before.double_free, "bad_magic": end.bad_magic - before.bad_magic,
                  "leaked_class": end.live_class - after_first.live_class, "first_mismatch": [ma, mf]}));
}

/// Files for the exhaustive exploration of the implementation's own cursor states.
pub fn explore_files() -> Vec<(Cfg, Vec<Entry>)> {
    let c = |bs: usize, k: usize, l: u8| Cfg { codec: 0, level: 0, block_size: bs, interval: k, levels: l };
    let short = |n: u32, vlen: usize| -> Vec<Entry> {
        (0..n).map(|i| ((i * 2 + 1).to_be_bytes().to_vec(), value_for(i + 1, vlen))).collect()
    };
    let longs = |n: u32, vlen: usize| -> Vec<Entry> {
        (0..n).map(|i| (long_key(1 + 2 * i), value_for(i + 1, vlen))).collect()
    };
    vec![
        // >= 9 data blocks under ONE index block with the default interval 8 (in-block table of
        // the index block has several slots), two entries per data block
        (c(1024, 8, 0), short(22, 500)),
        (c(1024, 8, 1), short(20, 500)),
        (c(1024, 3, 0), short(14, 500)),
        // two blocks on index level 2
        (c(1024, 8, 2), longs(20, 0)),
        (c(1024, 1, 2), longs(12, 400)),
        // index level 3 with two blocks on level 2
        (c(1024, 8, 3), longs(36, 400)),
        // keys of different lengths under one index block with several table slots (cached sizes /
        // offsets of index entries would go stale)
        (c(1024, 8, 0), (0..22u32).map(|i| {
            let mut k = (i * 2 + 1).to_be_bytes().to_vec();
            k.extend(std::iter::repeat(7u8).take((i % 5) as usize * 3));
            (k, value_for(i + 1, 500))
        }).collect()),
        // single block, interval 2
        (c(1024, 2, 0), short(9, 3)),
        (c(1024, 8, 0), vec![]),
        (c(1024, 8, 2), vec![(vec![], vec![])]),
    ]
}

/// Breadth-first exploration of the real cursor's reachable states (deduplicated with the
/// fingerprint of hook H1 together with the logical position): from every state, every operation
/// and every probe class is executed on a clone and logged, so that TLC judges every
/// (reachable state, operation) pair of the implementation against the contract.
pub fn scn_explore(out: &mut TraceOut, _r: &mut R, idx: u64, heavy: bool) {
    use std::collections::{HashSet, VecDeque};
    let files = explore_files();
    let (cfg, entries) = files[(idx as usize) % files.len()].clone();
    let n = entries.len();
    let max_states = if heavy { 20_000 } else { 120 };
    let all_probes: Vec<Vec<u8>> = (1..=2 * n + 1).filter_map(|q| model_probe(&entries, q)).collect();
    let (dict, data) = build_and_log(out, &cfg, &entries, &all_probes, 2);
    let Some(data) = data else { return };
    let mut ops: Vec<Op> = vec![Op::First, Op::Last, Op::Next, Op::Prev, Op::Current, Op::Reset];
    for p in &all_probes {
        ops.push(Op::Ge(p.clone()));
        ops.push(Op::Le(p.clone()));
        ops.push(Op::Eq(p.clone()));
    }
    // abstract bookkeeping used only to tell states apart (never to judge results)
    #[derive(Clone, PartialEq, Eq, Hash)]
    struct Abs {
        pos: i64,
        /// 0: everything specified, 1: a relative move just returned None, 2: an absolute move returned None
        zone: u8,
    }
    let step = |a: &Abs, op: &Op, res: i64| -> Abs {
        match op {
            Op::First | Op::Last | Op::Ge(_) | Op::Le(_) | Op::Eq(_) => {
                if res > 0 { Abs { pos: res, zone: 0 } } else { Abs { pos: a.pos, zone: 2 } }
            }
            Op::Next | Op::Prev => {
                if res > 0 { Abs { pos: res, zone: if a.zone == 2 { 2 } else { 0 } } } else { Abs { pos: a.pos, zone: if a.zone == 2 { 2 } else { 1 } } }
            }
            Op::Current => a.clone(),
            Op::Reset => Abs { pos: 0, zone: 0 },
        }
    };
    let mut s = new_session(out, entries.clone(), dict, data);
    let mut seen: HashSet<(Vec<(u64, u64, Option<usize>)>, bool, Abs)> = HashSet::new();
    let mut queue: VecDeque<Vec<Op>> = VecDeque::new();
    queue.push_back(vec![]);
    let mut explored = 0usize;
    let mut first = true;
    while let Some(hist) = queue.pop_front() {
        if explored >= max_states {
            break;
        }
        explored += 1;
        // reach the state again on a fresh cursor
        let Some(c) = s.cursor(first) else { return };
        first = false;
        let mut abs = Abs { pos: 0, zone: 0 };
        for op in &hist {
            let res = s.op(c, op);
            abs = step(&abs, op, res);
        }
        if hist.is_empty() {
            let (init, fp) = s.cursors[c - 1].verif_fingerprint();
            seen.insert((fp, init, abs.clone()));
        }
        for op in &ops {
            let d = s.clone_cursor(c);
            let res = s.op(d, op);
            if res >= 0 {
                let a2 = step(&abs, op, res);
                let (init, fp) = s.cursors[d - 1].verif_fingerprint();
                if seen.insert((fp, init, a2)) {
                    let mut h = hist.clone();
                    h.push(op.clone());
                    queue.push_back(h);
                }
            }
            s.forget(d);
        }
        s.forget(c);
    }
    let left = queue.len();
    s.out.ev(json!({"ev": "Explored", "states": explored, "left_on_queue": left, "distinct_seen": seen.len()}));
}

//! C12: exhaustive single-fault enumeration. A program is a fixed sequence of public calls; its
//! clean run counts the calls into every user-supplied component kind; it is then re-run once per
//! (component, k, failure kind) with exactly that call failing. One FRun event per run.
use crate::cursor::{random_file_capped, Src};
use crate::files::*;
use crate::io::{self, Fault, Sched, Sink};
use crate::merger::{token, Mf, Recorder};
use crate::sorter::{stoken, LogCreator, Pending};
use crate::util::*;
use grenad::{Merger, Reader, Sorter};
use rand::Rng;
use serde_json::{json, Value};
use std::cell::RefCell;
use std::collections::BTreeMap;
use std::ops::Bound;
use std::panic::{catch_unwind, AssertUnwindSafe};
use std::rc::Rc;

/// Outcome class of a public call.
fn class_io(_e: &std::io::Error) -> &'static str {
    "io"
}
fn class<U>(e: &grenad::Error<U>) -> &'static str {
    match e {
        grenad::Error::Io(_) => "io",
        grenad::Error::Merge(_) => "merge",
        grenad::Error::InvalidCompressionType => "codec",
        grenad::Error::InvalidFormatVersion => "fmt",
    }
}

/// Records the calls of one run: number of uneventful calls, and every call that either did not
/// return ok or during which the injected fault fired.
pub struct Calls {
    ok_calls: u64,
    notable: Vec<Value>,
    pub stopped: bool,
    /// keep issuing calls after one returned an error (cursor programs): later calls must not panic
    pub keep_going: bool,
    /// largest number of block loads (absolute seeks on the source) during one public call
    max_loads: u64,
}

impl Calls {
    fn new() -> Calls {
        Calls { ok_calls: 0, notable: Vec::new(), stopped: false, keep_going: false, max_loads: 0 }
    }
    /// Runs one public call; returns its value when it returned ok.
    fn call<T>(&mut self, op: &str, f: impl FnOnce() -> Result<T, &'static str>) -> Option<T> {
        if self.stopped {
            return None;
        }
        let before = io::fired();
        let loads_before = io::block_loads();
        let r = catch_unwind(AssertUnwindSafe(f));
        let fired = io::fired() && !before;
        // C16 speaks of single cursor operations (an iterator's next() may be two of them)
        if matches!(op, "first" | "last" | "next" | "prev" | "ge" | "le" | "eq") {
            self.max_loads = self.max_loads.max(io::block_loads() - loads_before);
        }
        let (res, val) = match r {
            Ok(Ok(v)) => ("ok", Some(v)),
            Ok(Err(c)) => (c, None),
            Err(_) => ("panic", None),
        };
        if res == "ok" && !fired {
            self.ok_calls += 1;
        } else {
            self.notable.push(json!({"op": op, "res": res, "fired": fired}));
        }
        if res == "panic" || (res != "ok" && !self.keep_going) {
            self.stopped = true;
        }
        val
    }
}

pub type Program = Box<dyn Fn(&mut Calls)>;

fn writer_program(cfg: Cfg, entries: Vec<Entry>) -> Program {
    Box::new(move |c: &mut Calls| {
        let Some(mut w) = c.call("build", || Ok(cfg.builder().build(Sink::new()))) else { return };
        for (k, v) in &entries {
            if c.call("insert", || w.insert(k, v).map_err(|e| class_io(&e))).is_none() {
                return;
            }
        }
        c.call("into_inner", move || w.into_inner().map(drop).map_err(|e| class_io(&e)));
    })
}

fn reader_program(bytes: Rc<Vec<u8>>, probes: Vec<Vec<u8>>, variant: u64) -> Program {
    Box::new(move |c: &mut Calls| {
        let open = |c: &mut Calls| c.call("open", || Reader::new(Src::new(bytes.clone())).map_err(|e| class(&e)));
        match variant % 4 {
            0 | 1 => {
                let Some(reader) = open(c) else { return };
                c.keep_going = true;
                let Some(mut cur) = c.call("into_cursor", move || reader.into_cursor().map_err(|e| class(&e))) else { return };
                if variant % 4 == 0 {
                    // scans in both directions with seeks in between
                    while let Some(Some(())) = c.call("next", || cur.move_on_next().map(|o| o.map(drop)).map_err(|e| class(&e))) {}
                    c.call("reset", || {
                        cur.reset();
                        Ok(())
                    });
                    while let Some(Some(())) = c.call("prev", || cur.move_on_prev().map(|o| o.map(drop)).map_err(|e| class(&e))) {}
                } else {
                    c.call("first", || cur.move_on_first().map(|o| o.map(drop)).map_err(|e| class(&e)));
                    c.call("last", || cur.move_on_last().map(|o| o.map(drop)).map_err(|e| class(&e)));
                    for (i, q) in probes.iter().enumerate() {
                        match i % 3 {
                            0 => c.call("ge", || cur.move_on_key_greater_than_or_equal_to(q).map(|o| o.map(drop)).map_err(|e| class(&e))),
                            1 => c.call("le", || cur.move_on_key_lower_than_or_equal_to(q).map(|o| o.map(drop)).map_err(|e| class(&e))),
                            _ => c.call("eq", || cur.move_on_key_equal_to(q).map(|o| o.map(drop)).map_err(|e| class(&e))),
                        };
                        c.call("prev", || cur.move_on_prev().map(|o| o.map(drop)).map_err(|e| class(&e)));
                        c.call("next", || cur.move_on_next().map(|o| o.map(drop)).map_err(|e| class(&e)));
                    }
                }
            }
            2 => {
                for (i, q) in probes.iter().enumerate().take(6) {
                    let Some(reader) = open(c) else { return };
                    let hi = probes[(i * 7 + 3) % probes.len()].clone();
                    let range = (Bound::Included(q.clone()), if i % 2 == 0 { Bound::Unbounded } else { Bound::Excluded(hi) });
                    if i % 2 == 0 {
                        let Some(mut it) = c.call("into_range_iter", move || reader.into_range_iter(range).map_err(|e| class(&e))) else { return };
                        while let Some(Some(())) = c.call("range.next", || it.next().map(|o| o.map(drop)).map_err(|e| class(&e))) {}
                    } else {
                        let Some(mut it) = c.call("into_rev_range_iter", move || reader.into_rev_range_iter(range).map_err(|e| class(&e))) else { return };
                        while let Some(Some(())) = c.call("revrange.next", || it.next().map(|o| o.map(drop)).map_err(|e| class(&e))) {}
                    }
                }
            }
            _ => {
                for (i, q) in probes.iter().enumerate().take(6) {
                    let Some(reader) = open(c) else { return };
                    let p = q[..q.len().min(1 + i % 3)].to_vec();
                    if i % 2 == 0 {
                        let Some(mut it) = c.call("into_prefix_iter", move || reader.into_prefix_iter(p).map_err(|e| class(&e))) else { return };
                        while let Some(Some(())) = c.call("prefix.next", || it.next().map(|o| o.map(drop)).map_err(|e| class(&e))) {}
                    } else {
                        let Some(mut it) = c.call("into_rev_prefix_iter", move || reader.into_rev_prefix_iter(p).map_err(|e| class(&e))) else { return };
                        while let Some(Some(())) = c.call("revprefix.next", || it.next().map(|o| o.map(drop)).map_err(|e| class(&e))) {}
                    }
                }
            }
        }
    })
}

fn merger_program(files: Vec<Rc<Vec<u8>>>, stream_writer: bool) -> Program {
    Box::new(move |c: &mut Calls| {
        let rec = Recorder { mf: Mf::Concat, calls: RefCell::new(Vec::new()) };
        let mut builder = Merger::builder(&rec);
        for f in &files {
            let Some(reader) = c.call("open", || Reader::new(Src::new(f.clone())).map_err(|e| class(&e))) else { return };
            let Some(cur) = c.call("into_cursor", move || reader.into_cursor().map_err(|e| class(&e))) else { return };
            builder.push(cur);
        }
        let merger = builder.build();
        if !stream_writer {
            let Some(mut it) = c.call("into_stream_merger_iter", move || merger.into_stream_merger_iter().map_err(|e| class(&e))) else { return };
            while let Some(Some(())) = c.call("merger.next", || it.next().map(|o| o.map(drop)).map_err(|e| class(&e))) {}
        } else {
            let mut w = Cfg { codec: 0, level: 0, block_size: 1024, interval: 2, levels: 2 }.builder().build(Sink::new());
            if c.call("write_into_stream_writer", || merger.write_into_stream_writer(&mut w).map_err(|e| class(&e))).is_none() {
                return;
            }
            c.call("into_inner", move || w.into_inner().map(drop).map_err(|e| class_io(&e)));
        }
    })
}

fn sorter_program(t: usize, init: usize, realloc: bool, maxc: usize, chunk: Cfg, inserts: Vec<Entry>, mode: u8) -> Program {
    Box::new(move |c: &mut Calls| {
        let rec = Recorder { mf: Mf::Concat, calls: RefCell::new(Vec::new()) };
        let pending: Pending = Rc::new(RefCell::new(Vec::new()));
        let mut b = Sorter::builder(&rec);
        b.allow_realloc(realloc).max_nb_chunks(maxc).verif_budget(t, init);
        b.chunk_compression_type(codec_of(chunk.codec))
            .block_size(chunk.block_size)
            .index_levels(chunk.levels)
            .index_key_interval(std::num::NonZeroUsize::new(chunk.interval).unwrap());
        let mut sorter = b.chunk_creator(LogCreator { next: RefCell::new(0), log: pending.clone(), capture: None }).build();
        for (k, v) in &inserts {
            if c.call("sorter.insert", || sorter.insert(k, v).map_err(|e| class(&e))).is_none() {
                return;
            }
        }
        match mode {
            0 => {
                let Some(mut it) = c.call("sorter.into_stream_merger_iter", move || sorter.into_stream_merger_iter().map_err(|e| class(&e))) else { return };
                while let Some(Some(())) = c.call("merger.next", || it.next().map(|o| o.map(drop)).map_err(|e| class(&e))) {}
            }
            1 => {
                let mut w = Cfg::default_small().builder().build(Sink::new());
                if c.call("sorter.write_into_stream_writer", || sorter.write_into_stream_writer(&mut w).map_err(|e| class(&e))).is_none() {
                    return;
                }
                c.call("into_inner", move || w.into_inner().map(drop).map_err(|e| class_io(&e)));
            }
            _ => {
                let Some(cursors) = c.call("sorter.into_reader_cursors", move || sorter.into_reader_cursors().map_err(|e| class(&e))) else { return };
                for mut cur in cursors {
                    while let Some(Some(())) = c.call("next", || cur.move_on_next().map(|o| o.map(drop)).map_err(|e| class(&e))) {}
                }
            }
        }
        pending.borrow_mut().clear();
    })
}

fn kinds_for(comp: &str) -> Vec<&'static str> {
    match comp {
        "sink.write" | "chunk.write" => vec!["other", "zero", "denied"],
        "create" => vec!["create:io", "create:fmt", "create:codec"],
        "merge" => vec!["merge"],
        _ => vec!["other", "eof", "denied", "timeout", "wouldblock"],
    }
}

/// Runs the program cleanly, then once per fault point. `cap` bounds the fault points per
/// component kind (evenly spread, first and last always included).
fn enumerate(out: &mut TraceOut, name: &str, prog: &Program, cap: usize, all_kinds: bool, r: &mut R, levels: u8) {
    io::reset(Sched::Whole, Sched::Whole, None);
    let mut clean = Calls::new();
    prog(&mut clean);
    let counts: BTreeMap<String, u64> = io::counts();
    // programs that hand a sink back to the caller must have flushed it
    let flushes = counts.get("sink.flush").copied().unwrap_or(0);
    let writes = counts.get("sink.write").copied().unwrap_or(0);
    out.ev(json!({"ev": "FClean", "prog": name, "ok_calls": clean.ok_calls, "notable": clean.notable, "counts": counts,
                  "sink_writes": writes, "sink_flushes": flushes, "max_loads": clean.max_loads, "levels": levels}));
    for (comp, n) in counts.iter() {
        let n = *n;
        let ks: Vec<u64> = if n as usize <= cap {
            (1..=n).collect()
        } else {
            let mut v: Vec<u64> = (0..cap as u64).map(|i| 1 + i * (n - 1) / (cap as u64 - 1)).collect();
            v.dedup();
            v
        };
        let kinds = kinds_for(comp);
        for k in ks {
            let chosen: Vec<&str> = if all_kinds { kinds.clone() } else { vec![kinds[r.gen_range(0..kinds.len())]] };
            for kind in chosen {
                io::reset(Sched::Whole, Sched::Whole, Some(Fault { comp: comp.clone(), k, kind: kind.to_string() }));
                let mut calls = Calls::new();
                prog(&mut calls);
                out.ev(json!({"ev": "FRun", "prog": name, "comp": comp, "k": k, "kind": kind, "fired": io::fired(),
                              "ok_calls": calls.ok_calls, "notable": calls.notable, "max_loads": calls.max_loads, "levels": levels}));
            }
        }
    }
    io::reset(Sched::Whole, Sched::Whole, None);
}

pub fn scn_faults(out: &mut TraceOut, r: &mut R, idx: u64, heavy: bool) {
    let cap = if heavy { 400 } else { 40 };
    let all_kinds = heavy;
    match idx % 4 {
        0 => {
            let (mut cfg, mut entries) = random_file_capped(r, 9 + idx / 4, false, 2000);
            entries.truncate(if heavy { 150 } else { 60 });
            if cfg.levels > 4 {
                cfg.levels = 3;
            }
            let prog = writer_program(cfg.clone(), entries);
            enumerate(out, "writer", &prog, cap, all_kinds, r, 0);
        }
        1 => {
            let (mut cfg, mut entries) = random_file_capped(r, 9 + idx / 4, false, 2000);
            entries.truncate(if heavy { 150 } else { 60 });
            if cfg.levels > 4 {
                cfg.levels = 3;
            }
            io::reset(Sched::Whole, Sched::Whole, None);
            // every third reader program runs on a version-1 file
            let v1 = (idx / 4) % 3 == 2;
            if v1 {
                cfg.levels = 0;
            }
            let Some(mut bytes) = write_file(&cfg, &entries).bytes else { return };
            if v1 {
                bytes = to_v1(&bytes);
            }
            let mut probes: Vec<Vec<u8>> = entries.iter().step_by(5).map(|(k, _)| k.clone()).collect();
            probes.push(vec![]);
            probes.push(vec![0xFF; 4]);
            probes.truncate(12);
            let prog = reader_program(Rc::new(bytes), probes, idx / 4);
            enumerate(out, "reader", &prog, cap, all_kinds, r, cfg.levels);
        }
        2 => {
            let k = r.gen_range(1..=3usize);
            let uni: Vec<Vec<u8>> = (0..40u32).map(|i| long_key(i)).collect();
            io::reset(Sched::Whole, Sched::Whole, None);
            let mut files = Vec::new();
            for i in 0..k {
                let keys: Vec<Vec<u8>> = uni.iter().filter(|_| r.gen_bool(0.6)).cloned().collect();
                let mut entries: Vec<Entry> = Vec::new();
                for (p, key) in keys.into_iter().enumerate() {
                    entries.push((key, token(i + 1, p + 1, *pick(r, &[0usize, 5, 9, 300]))));
                }
                let cfg = tree_cfg(r);
                let Some(b) = write_file(&cfg, &entries).bytes else { return };
                files.push(Rc::new(b));
            }
            let prog = merger_program(files, idx % 8 >= 4);
            enumerate(out, "merger", &prog, cap, all_kinds, r, 0);
        }
        _ => {
            let t = *pick(r, &[256usize, 512, 1000]);
            let init = *pick(r, &[32usize, 64, t]);
            let n = r.gen_range(20..if heavy { 160 } else { 70 });
            let keys: Vec<Vec<u8>> = (0..10u32).map(|i| vec![b'k', i as u8]).collect();
            let inserts: Vec<Entry> = (0..n)
                .map(|i| (pick(r, &keys).clone(), stoken(i as u32 + 1, *pick(r, &[0usize, 6, 20, 60, 200]))))
                .collect();
            let chunk = Cfg { codec: *pick(r, &[0u8, 5]), level: 0, block_size: 1024, interval: 2, levels: *pick(r, &[0u8, 1, 2]) };
            let prog = sorter_program(t, init, r.gen_bool(0.5), *pick(r, &[1usize, 2, 3]), chunk, inserts, (idx / 4 % 3) as u8);
            enumerate(out, "sorter", &prog, cap, all_kinds, r, 0);
        }
    }
}

//! C11, write side: the byte stream a writer hands to its sink under different schedules of
//! partial writes and interruptions, compared with the whole-buffer reference run.
use crate::cursor::random_file;
use crate::files::*;
use crate::io::{self, Sched};
use crate::util::*;
use serde_json::json;

pub fn scn_wsched(out: &mut TraceOut, r: &mut R, idx: u64, heavy: bool) {
    let (cfg, entries) = random_file(r, idx, heavy);
    io::reset(Sched::Whole, Sched::Whole, None);
    let reference = write_file(&cfg, &entries);
    let Some(ref_bytes) = reference.bytes else {
        out.ev(json!({"ev": "WRef", "res": "failed", "len": 0, "d1": 0, "d2": 0, "cfg": cfg.json()}));
        return;
    };
    let (d1, d2) = io::digest(&ref_bytes);
    out.ev(json!({"ev": "WRef", "res": "ok", "len": ref_bytes.len(), "d1": d1, "d2": d2, "cfg": cfg.json(), "n": entries.len()}));
    let mut policies = vec![Sched::Whole, Sched::OneByte, Sched::LenMinus1, Sched::InterruptFirst];
    for s in 0..(if heavy { 12 } else { 4 }) {
        policies.push(Sched::Random(idx * 1000 + s + 1));
    }
    if ref_bytes.len() > 300_000 {
        policies.retain(|p| *p != Sched::OneByte);
    }
    for p in policies {
        io::reset(Sched::Whole, p.clone(), None);
        let o = write_file(&cfg, &entries);
        let (intr, short) = io::io_stats();
        let writes = io::counts().get("sink.write").copied().unwrap_or(0);
        match o.bytes {
            Some(b) => {
                let (e1, e2) = io::digest(&b);
                out.ev(json!({"ev": "WRun", "policy": format!("{:?}", p), "res": "ok", "len": b.len(), "d1": e1, "d2": e2,
                              "writes": writes, "interrupts": intr, "short": short}));
            }
            None => out.ev(json!({"ev": "WRun", "policy": format!("{:?}", p), "res": format!("{}/{}: {}", o.ins, o.fin, o.detail),
                                  "len": 0, "d1": 0, "d2": 0, "writes": writes, "interrupts": intr, "short": short})),
        }
    }
    io::reset(Sched::Whole, Sched::Whole, None);
}

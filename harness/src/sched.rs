//! C11, write side: the byte stream a writer hands to its sink under different schedules of
//! partial writes and interruptions, compared with the whole-buffer reference run.
use crate::cursor::random_file;
use crate::files::*;
use crate::io::{self, Sched};
use crate::util::*;
use serde_json::json;

pub fn scn_wsched(out: &mut TraceOut, r: &mut R, idx: u64, heavy: bool) {
    let (cfg, entries) = random_file(r, idx, heavy);
    io::reset(Sched::Whole, Sched::Whole, None);
    let reference = write_file(&cfg, &entries);
    let Some(ref_bytes) = reference.bytes else {
        out.ev(json!({"ev": "WRef", "res": "failed", "len": 0, "d1": 0, "d2": 0, "cfg": cfg.json()}));
        return;
    };
    let (d1, d2) = io::digest(&ref_bytes);
    out.ev(json!({"ev": "WRef", "res": "ok", "len": ref_bytes.len(), "d1": d1, "d2": d2, "cfg": cfg.json(), "n": entries.len()}));
    let mut policies = vec![Sched::Whole, Sched::OneByte, Sched::LenMinus1, Sched::InterruptFirst, Sched::OneByteIntr];
    for s in 0..(if heavy { 12 } else { 4 }) {
        policies.push(Sched::Random(idx * 1000 + s + 1));
    }
    if ref_bytes.len() > 300_000 {
        policies.retain(|p| *p != Sched::OneByte && *p != Sched::OneByteIntr);
    }
    for p in policies {
        io::reset(Sched::Whole, p.clone(), None);
        let o = write_file(&cfg, &entries);
        let (intr, short) = io::io_stats();
        let writes = io::counts().get("sink.write").copied().unwrap_or(0);
        match o.bytes {
            Some(b) => {
                let (e1, e2) = io::digest(&b);
                out.ev(json!({"ev": "WRun", "policy": format!("{:?}", p), "res": "ok", "len": b.len(), "d1": e1, "d2": e2,
                              "writes": writes, "interrupts": intr, "short": short}));
            }
            None => out.ev(json!({"ev": "WRun", "policy": format!("{:?}", p), "res": format!("{}/{}: {}", o.ins, o.fin, o.detail),
                                  "len": 0, "d1": 0, "d2": 0, "writes": writes, "interrupts": intr, "short": short})),
        }
    }
    io::reset(Sched::Whole, Sched::Whole, None);
}

/// Append-only writer (justifies modelling a crashed writer's output as a truncation of the
/// finished file, C13): after every insert the bytes the sink holds (seen through
/// `Writer::as_ref`) are logged as (length, digests); once the writer is finished the digests of
/// the prefixes of the final file at those lengths are logged too. TLC checks that what the sink
/// held at any time is a prefix of the final file and that the trailer only comes with `finish`.
pub fn scn_wprefix(out: &mut TraceOut, r: &mut R, idx: u64, heavy: bool) {
    let (cfg, entries) = random_file(r, idx, heavy);
    if entries.iter().any(|(k, v)| k.len() + v.len() > 200_000) {
        out.ev(json!({"ev": "WPrefixSkip"}));
        return;
    }
    let mut w = cfg.builder().build(io::Sink::new());
    let mut seen: Vec<(usize, u32, u32)> = Vec::new();
    for (k, v) in &entries {
        if w.insert(k, v).is_err() {
            out.ev(json!({"ev": "WPrefixSkip"}));
            return;
        }
        let s: &io::Sink = w.as_ref();
        let (d1, d2) = io::digest(&s.data);
        seen.push((s.data.len(), d1, d2));
    }
    let Ok(sink) = w.into_inner() else {
        out.ev(json!({"ev": "WPrefixSkip"}));
        return;
    };
    let fin = sink.data;
    let during: Vec<_> = seen.iter().map(|(l, a, b)| json!([l, a, b])).collect();
    let of_final: Vec<_> = seen
        .iter()
        .map(|(l, _, _)| {
            let l = (*l).min(fin.len());
            let (a, b) = io::digest(&fin[..l]);
            json!([l, a, b])
        })
        .collect();
    out.ev(json!({"ev": "WPrefix", "size": fin.len(), "during": during, "final": of_final, "n": entries.len()}));
}

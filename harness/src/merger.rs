//! K-way merge scenarios (C06): MergerIter and write_into_stream_writer over sources written
//! with arbitrary configurations, with a recording merge function.
use crate::files::*;
use crate::util::*;
use grenad::{MergeFunction, Merger, Reader};
use rand::seq::SliceRandom;
use rand::Rng;
use serde_json::{json, Value};
use std::borrow::Cow;
use std::cell::RefCell;
use std::collections::{BTreeSet, HashMap};
use std::io::Cursor;
use std::panic::{catch_unwind, AssertUnwindSafe};

/// Value held by source `src` (1-based) at position `pos` (1-based): self-delimiting token
/// [len u16][src u8][pos u16][pad...]; some values are empty on purpose.
pub fn token(src: usize, pos: usize, len: usize) -> Vec<u8> {
    if len == 0 {
        return Vec::new();
    }
    let len = len.max(5);
    let mut v = Vec::with_capacity(len);
    v.extend_from_slice(&(len as u16).to_be_bytes());
    v.push(src as u8);
    v.extend_from_slice(&(pos as u16).to_be_bytes());
    let mut x = (src * 1000 + pos) as u32;
    while v.len() < len {
        x = x.wrapping_mul(1664525).wrapping_add(1013904223);
        v.push((x >> 24) as u8 & 0x1f);
    }
    v
}

#[derive(Clone, Copy, PartialEq)]
pub enum Mf {
    Concat,
    First,
    /// values joined with a ',' separator: associative, returns a lone value unchanged, and
    /// (unlike concatenation) reveals the position of empty values
    Join,
}

/// Merge function that records every call it receives.
pub struct Recorder {
    pub mf: Mf,
    pub calls: RefCell<Vec<(Vec<u8>, Vec<Vec<u8>>)>>,
}

/// The error of the user merge function (only produced by fault injection).
#[derive(Debug)]
pub struct MergeErr;
impl std::fmt::Display for MergeErr {
    fn fmt(&self, f: &mut std::fmt::Formatter<'_>) -> std::fmt::Result {
        f.write_str("injected merge failure")
    }
}

impl MergeFunction for Recorder {
    type Error = MergeErr;
    fn merge<'a>(&self, key: &[u8], values: &[Cow<'a, [u8]>]) -> Result<Cow<'a, [u8]>, Self::Error> {
        if crate::io::on_call("merge").is_some() {
            return Err(MergeErr);
        }
        self.calls.borrow_mut().push((key.to_vec(), values.iter().map(|v| v.to_vec()).collect()));
        match self.mf {
            Mf::Concat => {
                if values.len() == 1 {
                    Ok(values[0].clone())
                } else {
                    Ok(Cow::Owned(values.iter().flat_map(|v| v.iter().copied()).collect()))
                }
            }
            Mf::First => Ok(values[0].clone()),
            Mf::Join => {
                if values.len() == 1 {
                    Ok(values[0].clone())
                } else {
                    let mut v = Vec::new();
                    for (i, x) in values.iter().enumerate() {
                        if i > 0 {
                            v.push(b',');
                        }
                        v.extend_from_slice(x);
                    }
                    Ok(Cow::Owned(v))
                }
            }
        }
    }
}

pub struct Sources {
    /// per source: entries (key, value)
    pub srcs: Vec<Vec<Entry>>,
    /// unique non-empty value bytes -> (src, pos), 1-based
    pub by_bytes: HashMap<Vec<u8>, (usize, usize)>,
}

impl Sources {
    pub fn new(srcs: Vec<Vec<Entry>>) -> Sources {
        let mut by_bytes = HashMap::new();
        for (i, s) in srcs.iter().enumerate() {
            for (p, (_, v)) in s.iter().enumerate() {
                if !v.is_empty() {
                    by_bytes.insert(v.clone(), (i + 1, p + 1));
                }
            }
        }
        Sources { srcs, by_bytes }
    }
    /// holders of key k in source order: (src, pos, value bytes)
    pub fn holders(&self, k: &[u8]) -> Vec<(usize, usize, &[u8])> {
        let mut h = Vec::new();
        for (i, s) in self.srcs.iter().enumerate() {
            if let Ok(p) = s.binary_search_by(|(kk, _)| kk.as_slice().cmp(k)) {
                h.push((i + 1, p + 1, s[p].1.as_slice()));
            }
        }
        h
    }
    /// Names the values of a merge call by exact byte equality (see DESIGN: glue).
    pub fn name_vals(&self, k: &[u8], vals: &[Vec<u8>]) -> Vec<[i64; 2]> {
        let h = self.holders(k);
        vals.iter()
            .enumerate()
            .map(|(j, v)| {
                if j < h.len() && h[j].2 == v.as_slice() {
                    [h[j].0 as i64, h[j].1 as i64]
                } else if let Some(&(s, p)) = self.by_bytes.get(v) {
                    [s as i64, p as i64]
                } else {
                    [-1, -1]
                }
            })
            .collect()
    }
    /// Names an output value: the holders if it is exactly their concatenation, the first holder
    /// if it is exactly its bytes, otherwise whatever tokens can be parsed out of it.
    pub fn name_out(&self, k: &[u8], v: &[u8], mf: Mf) -> Vec<[i64; 2]> {
        let h = self.holders(k);
        if !h.is_empty() {
            match mf {
                Mf::Concat => {
                    let cat: Vec<u8> = h.iter().flat_map(|x| x.2.iter().copied()).collect();
                    if cat == v {
                        return h.iter().map(|x| [x.0 as i64, x.1 as i64]).collect();
                    }
                }
                Mf::First => {
                    if h[0].2 == v {
                        return vec![[h[0].0 as i64, h[0].1 as i64]];
                    }
                }
                Mf::Join => {}
            }
        }
        // greedy token parse
        let mut out = Vec::new();
        let mut p = 0;
        while p + 5 <= v.len() {
            let len = u16::from_be_bytes([v[p], v[p + 1]]) as usize;
            if len < 5 || p + len > v.len() {
                break;
            }
            match self.by_bytes.get(&v[p..p + len]) {
                Some(&(s, q)) => out.push([s as i64, q as i64]),
                None => out.push([-1, -1]),
            }
            p += len;
        }
        if p != v.len() || out.is_empty() {
            out.push([-1, -1]);
        }
        out
    }
}

fn universe(r: &mut R, which: u8) -> Vec<Vec<u8>> {
    match which {
        0 => alpha_strings(3),
        1 => (0..160u32).map(|i| long_key(i * 2 + 1)).collect(),
        2 => {
            let mut u = alpha_strings(2);
            u.extend((0..60u32).map(|i| long_key(i + 1)));
            u
        }
        _ => (0..300u32).map(|i| (i * 3).to_be_bytes().to_vec()).collect(),
    }
    .into_iter()
    .collect::<BTreeSet<_>>()
    .into_iter()
    .filter(|_| r.gen_bool(0.9))
    .collect()
}

/// A key held by tens of thousands of sources (source positions beyond 16 bits).
pub fn scn_merge_many(out: &mut TraceOut, r: &mut R, _idx: u64, _heavy: bool) {
    let nsrc = 65_540 + r.gen_range(0..5usize);
    let keys: Vec<Vec<u8>> = vec![vec![1], vec![2], vec![3]];
    let mut srcs: Vec<Vec<Entry>> = Vec::new();
    for i in 0..nsrc {
        let mut e = Vec::new();
        // key 2 is held by the first, the last and a few sources in between
        if i == 0 || i == 3 || i == 65_536 || i == nsrc - 1 || i == 40_000 {
            e.push((keys[1].clone(), token_wide(i + 1, e.len() + 1)));
        }
        if i == 1 {
            e.insert(0, (keys[0].clone(), token_wide(i + 1, 1)));
        }
        if i == 65_537 {
            e.push((keys[2].clone(), token_wide(i + 1, e.len() + 1)));
        }
        srcs.push(e);
    }
    let dict = Dict::build(keys.iter().cloned());
    out.ev(dict.event());
    let cfg = Cfg::default_small();
    let mut files = Vec::new();
    for (i, s) in srcs.iter().enumerate() {
        let ks: Vec<i64> = s.iter().map(|(k, _)| dict.id(k)).collect();
        out.ev(json!({"ev": "Src", "i": i + 1, "keys": ks}));
        files.push(std::rc::Rc::new(write_file(&cfg, s).bytes.unwrap()));
    }
    let rec = Recorder { mf: Mf::Concat, calls: RefCell::new(Vec::new()) };
    let name_vals = |vals: &[Vec<u8>]| -> Vec<[i64; 2]> { vals.iter().map(|v| parse_wide(v)).collect() };
    let res = catch_unwind(AssertUnwindSafe(|| -> Result<(), String> {
        let mut b = Merger::builder(&rec);
        for f in &files {
            b.push(Reader::new(crate::cursor::Src::new(f.clone())).and_then(Reader::into_cursor).map_err(|e| e.to_string())?);
        }
        out.ev(json!({"ev": "Built", "res": "ok", "mf": "concat", "how": 1, "stream_writer": false}));
        let mut it = b.build().into_stream_merger_iter().map_err(|e| e.to_string())?;
        loop {
            let item = it.next().map_err(|e| e.to_string())?.map(|(k, v)| (k.to_vec(), v.to_vec()));
            for (k, vals) in rec.calls.borrow_mut().drain(..) {
                out.ev(json!({"ev": "MergeCall", "k": dict.id(&k), "vals": name_vals(&vals)}));
            }
            match item {
                Some((k, v)) => {
                    let parts: Vec<Vec<u8>> = v.chunks(8).map(|c| c.to_vec()).collect();
                    out.ev(json!({"ev": "Out", "k": dict.id(&k), "v": name_vals(&parts)}));
                }
                None => break,
            }
        }
        out.ev(json!({"ev": "End", "res": "ok"}));
        Ok(())
    }));
    if !matches!(res, Ok(Ok(()))) {
        out.ev(json!({"ev": "End", "res": "failed"}));
    }
}

/// 8-byte token [src u32][pos u32] (source numbers beyond 16 bits)
fn token_wide(src: usize, pos: usize) -> Vec<u8> {
    let mut v = (src as u32).to_be_bytes().to_vec();
    v.extend_from_slice(&(pos as u32).to_be_bytes());
    v
}
fn parse_wide(v: &[u8]) -> [i64; 2] {
    if v.len() != 8 {
        return [-1, -1];
    }
    [u32::from_be_bytes([v[0], v[1], v[2], v[3]]) as i64, u32::from_be_bytes([v[4], v[5], v[6], v[7]]) as i64]
}

/// Corner patterns of the merge family.
fn merge_corner(idx: u64) -> Option<(Vec<Vec<Entry>>, bool)> {
    let e = |k: &[u8], v: Vec<u8>| (k.to_vec(), v);
    match idx {
        // the shortest possible entry alone in a source / in the written output
        5 => Some((vec![vec![e(b"", vec![])], vec![]], true)),
        6 => Some((vec![vec![e(b"", vec![])], vec![e(b"", vec![])]], true)),
        7 => Some((vec![vec![e(b"", vec![])], vec![e(b"a", token(2, 1, 5))]], false)),
        // merged values whose concatenation lands on a framing boundary (2^14, 2^7)
        8 => Some((vec![vec![e(b"k", token(1, 1, 10000))], vec![e(b"k", token(2, 1, 6384))]], true)),
        9 => Some((vec![vec![e(b"k", token(1, 1, 100))], vec![e(b"k", token(2, 1, 28))], vec![e(b"z", token(3, 1, 128))]], true)),
        10 => Some((vec![vec![e(b"k", token(1, 1, 16383))], vec![e(b"k", token(2, 1, 5))], vec![e(b"k", vec![])]], true)),
        // holder-count ladders: for every h in 1..=34 one key held by exactly h sources (the first h,
        // the last h, every h-th from a rotating start), so that every number of values a merge call
        // can receive up to 34 occurs, with a merge function that shows each of them
        11 | 12 | 13 => {
            let n = 34usize;
            let mut srcs: Vec<Vec<Entry>> = vec![Vec::new(); n];
            for h in 1..=n {
                let key = vec![b'h', h as u8];
                let holders: Vec<usize> = match idx {
                    11 => (0..h).collect(),
                    12 => (n - h..n).collect(),
                    _ => (0..h).map(|j| (j * 7 + h) % n).collect::<std::collections::BTreeSet<_>>().into_iter().collect(),
                };
                for s in holders {
                    let pos = srcs[s].len() + 1;
                    srcs[s].push((key.clone(), token(s + 1, pos, 5 + (h + s) % 3)));
                }
            }
            Some((srcs, idx == 12))
        }
        _ => None,
    }
}

pub fn scn_merge(out: &mut TraceOut, r: &mut R, idx: u64, heavy: bool) {
    if let Some((srcs, stream_writer)) = merge_corner(idx) {
        let mf = if (11..=13).contains(&idx) { Some(Mf::Concat) } else { None };
        return run_merge(out, r, idx, srcs, None, Some(stream_writer), mf);
    }
    // corner patterns first
    let k = match idx {
        0 => 0,
        1 => 1,
        2 => 2,
        _ => *pick(r, &[0usize, 1, 2, 2, 3, 3, 4, 5, 7, if heavy { 12 } else { 6 }]),
    };
    let which = if idx == 3 || idx == 4 { 1 } else { *pick(r, &[0u8, 0, 1, 2, 3]) };
    let uni = universe(r, which);
    let mut srcs: Vec<Vec<Entry>> = Vec::new();
    let mut cfgs: Vec<Cfg> = Vec::new();
    for i in 0..k {
        let density = *pick(r, &[0.0f64, 0.05, 0.3, 0.5, 0.9, 1.0]);
        let mut keys: Vec<Vec<u8>> = uni.iter().filter(|_| r.gen_bool(density)).cloned().collect();
        let cap = if which == 1 { 150 } else { 90 };
        if keys.len() > cap {
            keys.shuffle(r);
            keys.truncate(cap);
            keys.sort();
        }
        let entries: Vec<Entry> = keys
            .into_iter()
            .enumerate()
            .map(|(p, key)| {
                let len = *pick(r, &[0usize, 0, 5, 5, 6, 9, 40, 130, 700, 1500]);
                (key, token(i + 1, p + 1, len))
            })
            .collect();
        srcs.push(entries);
        let mut cfg = if idx == 3 || idx == 4 {
            Cfg { codec: 0, level: 0, block_size: 1024, interval: 2, levels: 3 + (idx as u8 - 3) }
        } else if r.gen_bool(0.6) {
            tree_cfg(r)
        } else {
            random_cfg(r, false)
        };
        if cfg.levels > 7 {
            cfg.levels = 7;
        }
        cfgs.push(cfg);
    }
    run_merge(out, r, idx, srcs, Some(cfgs), None, None)
}

fn run_merge(out: &mut TraceOut, r: &mut R, idx: u64, srcs: Vec<Vec<Entry>>, cfgs: Option<Vec<Cfg>>, force_writer: Option<bool>, force_mf: Option<Mf>) {
    let cfgs: Vec<Cfg> = cfgs.unwrap_or_else(|| srcs.iter().map(|_| Cfg::default_small()).collect());
    let sources = Sources::new(srcs);
    let dict = Dict::build(sources.srcs.iter().flat_map(|s| s.iter().map(|(k, _)| k.clone())));
    out.ev(dict.event());
    let mut files: Vec<Vec<u8>> = Vec::new();
    for (i, s) in sources.srcs.iter().enumerate() {
        let keys: Vec<i64> = s.iter().map(|(k, _)| dict.id(k)).collect();
        out.ev(json!({"ev": "Src", "i": i + 1, "keys": keys, "cfg": cfgs[i].json()}));
        match write_file(&cfgs[i], s).bytes {
            Some(b) => files.push(b),
            None => {
                out.ev(json!({"ev": "Built", "res": "source-write-failed", "mf": "concat"}));
                return;
            }
        }
    }
    let mf = if r.gen_bool(0.75) { Mf::Concat } else { Mf::First };
    let mf = force_mf.unwrap_or(mf);
    let mfname = if mf == Mf::Concat { "concat" } else { "first" };
    let stream_writer = force_writer.unwrap_or_else(|| r.gen_bool(0.35));
    let how = r.gen_range(0..3);
    let rec = Recorder { mf, calls: RefCell::new(Vec::new()) };
    let res = catch_unwind(AssertUnwindSafe(|| -> Result<(), String> {
        let mut cursors = Vec::new();
        for f in &files {
            let c = Reader::new(crate::cursor::Src::new(std::rc::Rc::new(f.clone()))).and_then(Reader::into_cursor).map_err(|e| e.to_string())?;
            cursors.push(c);
        }
        let mut builder = Merger::builder(&rec);
        match how {
            0 => {
                for c in cursors {
                    builder = builder.add(c);
                }
            }
            1 => {
                for c in cursors {
                    builder.push(c);
                }
            }
            _ => builder.extend(cursors),
        }
        let merger = builder.build();
        out.ev(json!({"ev": "Built", "res": "ok", "mf": mfname, "how": how, "stream_writer": stream_writer}));
        let flush_calls = |out: &mut TraceOut| {
            for (k, vals) in rec.calls.borrow_mut().drain(..) {
                let named = sources.name_vals(&k, &vals);
                let kid = dict.strs.binary_search(&k).map(|i| i as i64 + 1).unwrap_or(0);
                out.ev(json!({"ev": "MergeCall", "k": kid, "vals": named}));
            }
        };
        if !stream_writer {
            let mut it = merger.into_stream_merger_iter().map_err(|e| e.to_string())?;
            let mut guard = 0;
            loop {
                let item = it.next().map_err(|e| e.to_string())?.map(|(k, v)| (k.to_vec(), v.to_vec()));
                flush_calls(out);
                match item {
                    Some((k, v)) => {
                        let kid = dict.strs.binary_search(&k).map(|i| i as i64 + 1).unwrap_or(0);
                        out.ev(json!({"ev": "Out", "k": kid, "v": sources.name_out(&k, &v, mf)}));
                    }
                    None => break,
                }
                guard += 1;
                if guard > dict.strs.len() + 3 {
                    break;
                }
            }
            out.ev(json!({"ev": "End", "res": "ok"}));
        } else {
            let wcfg = tree_cfg(&mut rng(idx, 99));
            let mut w = wcfg.builder().memory();
            merger.write_into_stream_writer(&mut w).map_err(|e| e.to_string())?;
            let bytes = w.into_inner().map_err(|e| e.to_string())?;
            flush_calls(out);
            let mut c = Reader::new(Cursor::new(bytes.as_slice())).and_then(Reader::into_cursor).map_err(|e| e.to_string())?;
            let mut entries: Vec<Value> = Vec::new();
            while let Some((k, v)) = c.move_on_next().map_err(|e| e.to_string())? {
                let kid = dict.strs.binary_search_by(|x| x.as_slice().cmp(k)).map(|i| i as i64 + 1).unwrap_or(0);
                entries.push(json!({"k": kid, "v": sources.name_out(k, v, mf)}));
                if entries.len() > dict.strs.len() + 3 {
                    break;
                }
            }
            out.ev(json!({"ev": "WOut", "res": "ok", "entries": entries}));
        }
        Ok(())
    }));
    match res {
        Ok(Ok(())) => {}
        Ok(Err(e)) => out.ev(json!({"ev": "End", "res": "err", "detail": e})),
        Err(e) => out.ev(json!({"ev": "End", "res": "panic", "detail": panic_msg(e)})),
    }
}

/// Spec -> implementation for the merger: every overlap pattern TLC explored in the Merger model
/// (sources as subsets of a few model keys) is replayed on the real merger. A model key stands for
/// a group of consecutive real keys (so that sources span several blocks and index levels); the
/// recorded run is judged by TLC (TraceMerger) and the order of sources the model predicts for
/// every key is compared with the real output (drift).
pub fn replay_mruns(out: &mut TraceOut, doc: &Value, r: &mut R) -> (u64, u64) {
    let mut compared = 0u64;
    let mut drift = 0u64;
    for (ri, run) in doc["runs"].as_array().unwrap().iter().enumerate() {
        out.begin(&format!("mrun/{}/{}", doc["name"].as_str().unwrap_or("m"), ri));
        let model_srcs: Vec<Vec<u64>> = run["srcs"].as_array().unwrap().iter()
            .map(|s| s.as_array().unwrap().iter().map(|k| k.as_u64().unwrap()).collect()).collect();
        let group = *pick(r, &[1usize, 1, 3, 7, 12]);
        let long = r.gen_bool(0.6);
        let real_key = |k: u64, j: usize| -> Vec<u8> {
            let id = (k as u32) * 100 + j as u32;
            if long { long_key(id) } else { id.to_be_bytes().to_vec() }
        };
        let mut srcs: Vec<Vec<Entry>> = Vec::new();
        for (i, s) in model_srcs.iter().enumerate() {
            let mut entries = Vec::new();
            for k in s {
                for j in 0..group {
                    let p = entries.len() + 1;
                    entries.push((real_key(*k, j), token(i + 1, p, *pick(r, &[0usize, 5, 5, 9, 60, 400]))));
                }
            }
            srcs.push(entries);
        }
        let sources = Sources::new(srcs);
        let dict = Dict::build(sources.srcs.iter().flat_map(|s| s.iter().map(|(k, _)| k.clone())));
        out.ev(dict.event());
        let mut files = Vec::new();
        let mut failed = false;
        for (i, s) in sources.srcs.iter().enumerate() {
            let cfg = tree_cfg(r);
            let keys: Vec<i64> = s.iter().map(|(k, _)| dict.id(k)).collect();
            out.ev(json!({"ev": "Src", "i": i + 1, "keys": keys, "cfg": cfg.json()}));
            match write_file(&cfg, s).bytes {
                Some(b) => files.push(b),
                None => failed = true,
            }
        }
        if failed {
            out.ev(json!({"ev": "Built", "res": "source-write-failed", "mf": "concat"}));
            continue;
        }
        let rec = Recorder { mf: Mf::Concat, calls: RefCell::new(Vec::new()) };
        let mut real_out: Vec<(Vec<u8>, Vec<[i64; 2]>)> = Vec::new();
        let res = catch_unwind(AssertUnwindSafe(|| -> Result<(), String> {
            let mut builder = Merger::builder(&rec);
            for f in &files {
                builder.push(Reader::new(crate::cursor::Src::new(std::rc::Rc::new(f.clone()))).and_then(Reader::into_cursor).map_err(|e| e.to_string())?);
            }
            out.ev(json!({"ev": "Built", "res": "ok", "mf": "concat", "how": 1, "stream_writer": false}));
            let mut it = builder.build().into_stream_merger_iter().map_err(|e| e.to_string())?;
            loop {
                let item = it.next().map_err(|e| e.to_string())?.map(|(k, v)| (k.to_vec(), v.to_vec()));
                for (k, vals) in rec.calls.borrow_mut().drain(..) {
                    let kid = dict.strs.binary_search(&k).map(|i| i as i64 + 1).unwrap_or(0);
                    out.ev(json!({"ev": "MergeCall", "k": kid, "vals": sources.name_vals(&k, &vals)}));
                }
                match item {
                    Some((k, v)) => {
                        let kid = dict.strs.binary_search(&k).map(|i| i as i64 + 1).unwrap_or(0);
                        let named = sources.name_out(&k, &v, Mf::Concat);
                        out.ev(json!({"ev": "Out", "k": kid, "v": named}));
                        real_out.push((k, named));
                    }
                    None => break,
                }
                if real_out.len() > dict.strs.len() + 3 {
                    break;
                }
            }
            out.ev(json!({"ev": "End", "res": "ok"}));
            Ok(())
        }));
        match res {
            Ok(Ok(())) => {}
            Ok(Err(e)) => out.ev(json!({"ev": "End", "res": "err", "detail": e})),
            Err(e) => out.ev(json!({"ev": "End", "res": "panic", "detail": panic_msg(e)})),
        }
        // drift: per model key, the sequence of sources the model predicts
        for o in run["out"].as_array().unwrap() {
            let k = o[0].as_u64().unwrap();
            let want: Vec<i64> = o[1].as_array().unwrap().iter().map(|t| t[0].as_i64().unwrap()).collect();
            for j in 0..group {
                compared += 1;
                let rk = real_key(k, j);
                let got: Option<Vec<i64>> = real_out.iter().find(|(kk, _)| *kk == rk).map(|(_, v)| v.iter().map(|t| t[0]).collect());
                // empty values are invisible in a concatenation: compare only when all are named
                match got {
                    Some(g) if g == want => {}
                    Some(g) if g.len() < want.len() && g.iter().all(|x| want.contains(x)) => {}
                    _ => drift += 1,
                }
            }
        }
    }
    (compared, drift)
}

/// longest run of the allocator's poison byte in `v`
fn poison_run(v: &[u8]) -> usize {
    let (mut best, mut cur) = (0usize, 0usize);
    for &b in v {
        if b == 0xDD {
            cur += 1;
            best = best.max(cur);
        } else {
            cur = 0;
        }
    }
    best
}

/// C17: the merge function fails at its k-th call (every k in turn) and the caller keeps pulling
/// from the same iterator. Nothing is specified about what comes out after the error, but every
/// value handed to the merge function or yielded must still be live memory: the monitoring
/// allocator fills freed memory with 0xDD, a byte no token contains (token bytes are < 0x20 apart
/// from the five header bytes), so a run of eight of them was read through a dangling reference.
pub fn scn_merge_resume(out: &mut TraceOut, r: &mut R, idx: u64, _heavy: bool) {
    let nsrc = r.gen_range(2..=5usize);
    let nkeys = r.gen_range(4..=14u32);
    let mut files: Vec<std::rc::Rc<Vec<u8>>> = Vec::new();
    for s in 0..nsrc {
        let held: Vec<u32> = (0..nkeys).filter(|_| r.gen_bool(0.8)).collect();
        let mut entries: Vec<Entry> = Vec::new();
        for (p, k) in held.into_iter().enumerate() {
            entries.push((k.to_be_bytes().to_vec(), token(s + 1, p + 1, *pick(r, &[40usize, 300, 700, 1500]))));
        }
        let cfg = Cfg { codec: *pick(r, &[0u8, 0, 5]), level: 0, block_size: 1024, interval: *pick(r, &[1usize, 8]), levels: (idx % 3) as u8 };
        match write_file(&cfg, &entries).bytes {
            Some(b) => files.push(std::rc::Rc::new(b)),
            None => return,
        }
    }
    let run = |fail_at: u64| -> (String, usize, usize, usize) {
        crate::io::reset(crate::io::Sched::Whole, crate::io::Sched::Whole,
            if fail_at == 0 { None } else { Some(crate::io::Fault { comp: "merge".into(), k: fail_at, kind: "merge".into() }) });
        let rec = Recorder { mf: Mf::Concat, calls: RefCell::new(Vec::new()) };
        let mut poisoned = 0usize;
        let mut errors = 0usize;
        let res = catch_unwind(AssertUnwindSafe(|| -> Result<(), String> {
            let mut b = Merger::builder(&rec);
            for f in &files {
                b.push(Reader::new(crate::cursor::Src::new(f.clone())).and_then(Reader::into_cursor).map_err(|e| e.to_string())?);
            }
            let mut it = b.build().into_stream_merger_iter().map_err(|e| e.to_string())?;
            for _ in 0..(nkeys as usize * 2 + 6) {
                match it.next() {
                    Ok(Some((k, v))) => {
                        if poison_run(k) >= 4 || poison_run(v) >= 8 {
                            poisoned += 1;
                        }
                    }
                    Ok(None) => break,
                    Err(_) => {
                        errors += 1;
                        if errors >= 3 {
                            break;
                        }
                    }
                }
            }
            Ok(())
        }));
        let calls = rec.calls.borrow();
        for (_, vals) in calls.iter() {
            poisoned += vals.iter().filter(|v| poison_run(v) >= 8).count();
        }
        let res = match res {
            Ok(Ok(())) => "ok".to_string(),
            Ok(Err(e)) => format!("err: {}", e),
            Err(e) => format!("panic: {}", crate::util::panic_msg(e)),
        };
        (res, calls.len(), errors, poisoned)
    };
    let (_, total, _, _) = run(0);
    for fail_at in 1..=(total as u64).min(16) {
        let (res, calls, errors, poisoned) = run(fail_at);
        out.ev(json!({"ev": "Resume", "fail_at": fail_at, "calls": calls, "errors": errors, "poisoned": poisoned, "res": res}));
    }
    crate::io::reset(crate::io::Sched::Whole, crate::io::Sched::Whole, None);
}

INIT Init
NEXT Next
CONSTANT MaxContent = 9
INVARIANTS ContentAscending RangeOk PrefixOk
CHECK_DEADLOCK FALSE

------------------------------ MODULE TraceApi ------------------------------
EXTENDS Integers, Sequences, TLC, Json, IOUtils, Api
Rec == ndJsonDeserialize(IOEnv.TRACE)
VARIABLE l
IsEvent(e) == l <= Len(Rec) /\ Rec[l].ev = e /\ l' = l + 1
TraceInit == l = 1
EvReset == IsEvent("Reset")
EvFromStr == IsEvent("FromStr") /\ FromStrOk(Rec[l].name, Rec[l].res)
\* the bytes written by a default writer equal those of the explicit default configuration
EvDefaults == IsEvent("Defaults") /\ Rec[l].implicit = Rec[l].explicit /\ Rec[l].cfg = DefaultCfg
\* finish() and into_inner() hand the same stream to the sink
EvFinish == IsEvent("Finish") /\ Rec[l].res = "ok" /\ Rec[l].via_finish = Rec[l].via_into_inner
EvAccessors ==
    /\ IsEvent("Accessors")
    /\ LET e == Rec[l] IN
       /\ e.is_empty = (e.len = 0)
       /\ e.len = e.n /\ e.len_via_cursor = e.n /\ e.len_after_into_reader = e.n
       /\ e.source_back = e.size           \* into_inner returns the very source (same bytes)
EvFused == IsEvent("Fused") /\ AfterNoneOk(Rec[l].after, Rec[l].n)
EvIterClone == IsEvent("IterClone") /\ CloneOk(Rec[l].full, Rec[l].j, Rec[l].from_clone, Rec[l].from_orig)
\* &MF and Either forward to the merge function: same output as using it directly
EvForward == IsEvent("Forward") /\ Rec[l].direct = Rec[l].by_ref /\ Rec[l].direct = Rec[l].either_left /\ Rec[l].direct = Rec[l].either_right
TraceNext == EvReset \/ EvFromStr \/ EvDefaults \/ EvFinish \/ EvAccessors \/ EvFused \/ EvIterClone \/ EvForward
TraceSpec == TraceInit /\ [][TraceNext]_l
TraceAccepted ==
    LET d == TLCGet("stats").diameter IN
    IF d - 1 = Len(Rec) THEN TRUE
    ELSE /\ PrintT(<<"REJECTED-AT-LINE", d, Rec[d].ev>>) /\ FALSE
=============================================================================

SPECIFICATION WLiveAll
CONSTANTS
  Buffers <- MCBuffers
  Data <- MCData
  Wants <- MCWants
  MaxIntr = 2
  CountAccepted = TRUE
PROPERTIES WTerminates WMonotone
CHECK_DEADLOCK FALSE

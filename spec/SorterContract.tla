-------------------------- MODULE SorterContract --------------------------
(***************************************************************************)
(* Level A for C07 / C08.                                                  *)
(* An insert is [k |-> key (integer rank), id |-> token id (0 for an       *)
(* empty value, which is invisible in a concatenation), size |-> bytes of  *)
(* key + value].                                                           *)
(* C07: the output holds the distinct inserted keys in ascending order;    *)
(* with the concatenating merge function the value of a key is the         *)
(* sequence of its (non-empty) tokens -- in insertion order under the      *)
(* stable sort, in some order under the unstable one.                      *)
(* C08: see Bound and LiveBound.                                           *)
(***************************************************************************)
EXTENDS Integers, Sequences, FiniteSets

KeysOf(ins) == {ins[i].k : i \in 1..Len(ins)}

\* tokens inserted for key k, in insertion order (empty values left out)
Tokens(ins, k) ==
    LET sel == SelectSeq(ins, LAMBDA e : e.k = k /\ e.id # 0) IN [i \in 1..Len(sel) |-> sel[i].id]

\* all values inserted for key k, empty ones included (id 0), in insertion order
TokensAll(ins, k) ==
    LET sel == SelectSeq(ins, LAMBDA e : e.k = k) IN [i \in 1..Len(sel) |-> sel[i].id]

SeqSet(s) == {s[i] : i \in 1..Len(s)}
Zeros(s) == Len(SelectSeq(s, LAMBDA x : x = 0))

\* mf = "concat": concatenation (empty values are invisible); mf = "join": values joined with a
\* separator, so the output also shows where the empty values are
\* mf = "first": the merge function keeps its first argument, so the value is one inserted value of
\* the key: the first one under the stable sort, any one otherwise (an empty value shows as <<>>)
One(id) == IF id = 0 THEN <<>> ELSE <<id>>
ValueOk(ins, k, v, stable, mf) ==
    LET t == IF mf = "join" THEN TokensAll(ins, k) ELSE Tokens(ins, k) IN
    IF mf = "first" THEN
        \* (membership in a set built once: a quantifier over the positions re-evaluates the
        \* selection for every position, quadratic on a key inserted thousands of times)
        LET a == TokensAll(ins, k) IN
        IF stable THEN v = One(a[1])
        ELSE LET sa == SeqSet(a) IN
             IF v = <<>> THEN 0 \in sa ELSE (Len(v) = 1 /\ v[1] # 0 /\ v[1] \in sa)
    ELSE IF stable THEN v = t
    ELSE Len(v) = Len(t) /\ SeqSet(v) = SeqSet(t) /\ Zeros(v) = Zeros(t)   \* non-zero ids are unique: a permutation

\* entries: sequence of [k, v]
OutputOk(ins, entries, stable, mf) ==
    /\ \A x \in 1..(Len(entries) - 1) : entries[x].k < entries[x + 1].k
    /\ {entries[x].k : x \in 1..Len(entries)} = KeysOf(ins)
    /\ \A x \in 1..Len(entries) : ValueOk(ins, entries[x].k, entries[x].v, stable, mf)

\* C08: an entry is small relative to the budget
Small(size, teff) == 4 * (size + 16) <= teff
\* volume (key + value bytes) that may accumulate between two spills
Bound(teff, realloc) == IF realloc THEN 2 * teff ELSE teff
LiveBound(maxc) == maxc + 2
=============================================================================

------------------------------ MODULE BlockImpl ------------------------------
(***************************************************************************)
(* Level B: grenad's in-block cursor (BlockCursor over one decoded block)  *)
(* with the footer offset table as it is coded: one table slot per K       *)
(* entries, binary search over the table slots, then a linear scan.        *)
(* Positions are entry indices: 0 = unset (None), 1..n an entry, n+1 = the *)
(* end of the payload.  Keys are 2, 4, .., 2n so that odd probes fall in   *)
(* the gaps.                                                               *)
(*                                                                         *)
(* MCBlock checks, for every block size n, every interval K, from every    *)
(* reachable position and for every probe, that each operation answers     *)
(* what the in-block contract says (first / last / neighbours / floor /    *)
(* ceiling), including the two oddities the whole-file cursor relies on:   *)
(* prev on the first entry and next past the end answer None WITHOUT       *)
(* moving.                                                                 *)
(***************************************************************************)
EXTENDS Integers, Sequences, FiniteSets

CONSTANTS MaxN, MaxK

VARIABLES n, K, at, res, ok
bvars == <<n, K, at, res, ok>>

Key(i) == 2 * i
Table == [j \in 1..(IF n = 0 THEN 1 ELSE (n + K - 1) \div K) |-> (j - 1) * K + 1]   \* entry index of every slot
HasEntry(i) == i >= 1 /\ i <= n
CurOf(a) == IF HasEntry(a) THEN a ELSE 0        \* current(): the entry, or 0 for None

\* Rust's slice::binary_search on the table for position p: <<found, index>> (1-based slot or
\* number of slots below p)
SlotSearch(p) ==
    IF \E j \in 1..Len(Table) : Table[j] = p
    THEN <<TRUE, CHOOSE j \in 1..Len(Table) : Table[j] = p>>
    ELSE <<FALSE, Cardinality({j \in 1..Len(Table) : Table[j] < p})>>
\* binary_search_by_key(&Some(q), |off| entry_at(off).map(key)): an empty slot (None) sorts first
KeySearch(q) ==
    LET keyOf(j) == IF HasEntry(Table[j]) THEN Key(Table[j]) ELSE -1 IN
    IF \E j \in 1..Len(Table) : keyOf(j) = q
    THEN <<TRUE, CHOOSE j \in 1..Len(Table) : keyOf(j) = q>>
    ELSE <<FALSE, Cardinality({j \in 1..Len(Table) : keyOf(j) < q})>>

\* linear scans
RECURSIVE ScanLast(_, _)
ScanLast(off, cur) == IF HasEntry(off) THEN ScanLast(off + 1, off) ELSE cur
RECURSIVE ScanUntilKey(_, _, _)          \* move_on_prev: stop in front of the current key
ScanUntilKey(off, cur, stop) ==
    IF HasEntry(off) /\ Key(off) # stop THEN ScanUntilKey(off + 1, off, stop) ELSE cur
RECURSIVE ScanLe(_, _, _)                \* move_on_key_lower_than_or_equal_to
ScanLe(off, cur, q) == IF HasEntry(off) /\ Key(off) <= q THEN ScanLe(off + 1, off, q) ELSE cur

\* each move: <<new position, answer>>
MFirst == <<1, CurOf(1)>>
MLast == LET a == ScanLast(Table[Len(Table)], at) IN <<a, CurOf(a)>>
MNext == IF at = 0 THEN MFirst
         ELSE IF HasEntry(at) THEN <<at + 1, CurOf(at + 1)>>
         ELSE <<at, 0>>
MPrev ==
    IF at = 0 THEN MLast
    ELSE LET s == SlotSearch(at)
             i == IF s[1] THEN s[2] - 1 ELSE s[2] IN
         IF i < 1 THEN <<at, 0>>                       \* checked_sub(1)? : None, no move
         ELSE IF ~HasEntry(at) THEN <<at, 0>>          \* no current key: None, no move
         ELSE LET a == ScanUntilKey(Table[i], at, Key(at)) IN <<a, CurOf(a)>>
MLe(q) ==
    LET s == KeySearch(q) IN
    IF s[1] THEN <<Table[s[2]], CurOf(Table[s[2]])>>
    ELSE IF s[2] < 1 THEN <<0, 0>>
    ELSE LET a == ScanLe(Table[s[2]], 0, q) IN <<a, CurOf(a)>>
MGe(q) ==
    LET le == MLe(q) IN
    IF le[2] # 0 /\ Key(le[2]) = q THEN le
    ELSE IF le[2] # 0 THEN (IF HasEntry(le[1]) THEN <<le[1] + 1, CurOf(le[1] + 1)>> ELSE <<le[1], 0>>)
    ELSE MFirst

\* the in-block contract
MaxLe(q) == LET S == {i \in 1..n : Key(i) <= q} IN IF S = {} THEN 0 ELSE CHOOSE i \in S : \A j \in S : j <= i
MinGe(q) == LET S == {i \in 1..n : Key(i) >= q} IN IF S = {} THEN 0 ELSE CHOOSE i \in S : \A j \in S : i <= j
Expected(op, q) ==
    CASE op = "first" -> IF n = 0 THEN 0 ELSE 1
      [] op = "last"  -> IF n = 0 THEN CurOf(at) ELSE n
      [] op = "next"  -> IF at = 0 THEN (IF n = 0 THEN 0 ELSE 1) ELSE IF at < n THEN at + 1 ELSE 0
      [] op = "prev"  -> IF at = 0 THEN n ELSE IF at >= 2 /\ at <= n THEN at - 1 ELSE 0
      [] op = "le"    -> MaxLe(q)
      [] op = "ge"    -> MinGe(q)

BInit == n \in 0..MaxN /\ K \in 1..MaxK /\ at = 0 /\ res = 0 /\ ok = TRUE
Do(op, q, m) == at' = m[1] /\ res' = m[2] /\ ok' = (m[2] = Expected(op, q)) /\ UNCHANGED <<n, K>>
BNext ==
    \/ Do("first", 0, MFirst) \/ Do("last", 0, MLast) \/ Do("next", 0, MNext) \/ Do("prev", 0, MPrev)
    \/ \E q \in 1..(2 * MaxN + 1) : Do("le", q, MLe(q)) \/ Do("ge", q, MGe(q))
BSpec == BInit /\ [][BNext]_bvars

AnswersOk == ok
\* positions stay inside 0..n+1, and a failed prev/next does not move the cursor off an entry
PositionOk == at >= 0 /\ at <= n + 1
=============================================================================

SPECIFICATION WSpecAll
CONSTANTS
  Buffers <- MCBuffers
  Data <- MCData
  Wants <- MCWants
  MaxIntr = 2
  CountAccepted = TRUE
INVARIANTS PrefixOk CountOk OffsetsOk CompleteOk
CHECK_DEADLOCK FALSE

SPECIFICATION RSpecAll
CONSTANTS
  Buffers <- MCBuffers
  Data <- MCData
  Wants <- MCWants
  MaxIntr = 2
  CountAccepted = TRUE
INVARIANTS ReadsOk
CHECK_DEADLOCK FALSE

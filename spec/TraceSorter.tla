---------------------------- MODULE TraceSorter ----------------------------
(***************************************************************************)
(* Trace validation of the real Sorter (C07: CheckOutput, C08: CheckBounds) *)
(* Events: SCfg, SIns (one per Sorter::insert, at its return), Create /    *)
(* Drop (logged by the instrumented chunk creator and its chunks, in the   *)
(* order they happened, before the event of the public call they happened  *)
(* in), SOut (the whole output obtained through one of the three ways).    *)
(***************************************************************************)
EXTENDS Integers, Sequences, TLC, Json, IOUtils, Bytes, SorterContract
CONSTANTS CheckOutput, CheckBounds

Rec == ndJsonDeserialize(IOEnv.TRACE)

VARIABLES l, cfg, ins, since, live, allsmall, cfail, faulted
vars == <<l, cfg, ins, since, live, allsmall, cfail, faulted>>

NoCfg == [teff |-> 0, realloc |-> FALSE, maxc |-> 1, stable |-> TRUE, mf |-> "concat"]
TraceInit == l = 1 /\ cfg = NoCfg /\ ins = <<>> /\ since = 0 /\ live = 0 /\ allsmall = TRUE /\ cfail = FALSE /\ faulted = FALSE
IsEvent(e) == l <= Len(Rec) /\ Rec[l].ev = e /\ l' = l + 1

EvReset == IsEvent("Reset") /\ cfg' = NoCfg /\ ins' = <<>> /\ since' = 0 /\ live' = 0 /\ allsmall' = TRUE /\ cfail' = FALSE /\ faulted' = FALSE
EvDict == IsEvent("Dict") /\ StrictlyAscending(Rec[l].strs) /\ UNCHANGED <<cfg, ins, since, live, allsmall, cfail, faulted>>
EvSCfg ==
    /\ IsEvent("SCfg")
    /\ cfg' = [teff |-> Rec[l].teff, realloc |-> Rec[l].realloc, maxc |-> Rec[l].maxc, stable |-> Rec[l].stable, mf |-> Rec[l].mf]
    /\ ins' = <<>> /\ since' = 0 /\ live' = 0 /\ allsmall' = TRUE /\ cfail' = FALSE /\ faulted' = FALSE

\* Sorter::insert returned
EvSIns ==
    /\ IsEvent("SIns")
    /\ LET e == Rec[l] IN
       /\ e.res = "ok"
       /\ cfail' = FALSE
       /\ ins' = Append(ins, [k |-> e.k, id |-> e.id, size |-> e.size])
       /\ since' = since + e.size
       /\ allsmall' = (allsmall /\ Small(e.size, cfg.teff))
       \* C08: while only small entries are inserted, the volume inserted since the last
       \* spill (or since creation) stays within the bound
       /\ (CheckBounds /\ allsmall') => since' <= Bound(cfg.teff, cfg.realloc)
    /\ UNCHANGED <<cfg, live, faulted>>

\* the chunk creator failed (injected, transient): the insert in progress returns that error and
\* stores nothing; the caller may retry.  Nothing was spilled, so the volume keeps counting.
\* (Once a creation has failed the live-chunk bound is no longer enforced: when it is the creation
\* of the merge output that fails, the sorter keeps its unmerged chunks -- C08 does not quantify
\* over faults.  The volume bound still is: a failed spill stores nothing.)
EvCreateFail == IsEvent("CreateFail") /\ cfail' = TRUE /\ faulted' = TRUE /\ UNCHANGED <<cfg, ins, since, live, allsmall>>
EvSInsFailed ==
    /\ IsEvent("SIns")
    /\ Rec[l].res # "ok" /\ cfail
    /\ cfail' = FALSE
    /\ UNCHANGED <<cfg, ins, since, live, allsmall, faulted>>

\* the sorter asked the user-supplied creator for a chunk: a spill (or a chunk merge)
EvCreate ==
    /\ IsEvent("Create")
    /\ since' = 0
    /\ live' = live + 1
    /\ (CheckBounds /\ ~faulted) => live' <= LiveBound(cfg.maxc)
    /\ UNCHANGED <<cfg, ins, allsmall, cfail, faulted>>

EvDrop ==
    /\ IsEvent("Drop")
    /\ live >= 1
    /\ live' = live - 1
    /\ UNCHANGED <<cfg, ins, since, allsmall, cfail, faulted>>

\* the output of the sorter, obtained by streaming, through a writer, or by merging the
\* returned chunk cursors
EvSOut ==
    /\ IsEvent("SOut")
    /\ LET e == Rec[l] IN
       /\ e.res = "ok"
       /\ CheckOutput => OutputOk(ins, e.entries, cfg.stable, cfg.mf)
    /\ UNCHANGED <<cfg, ins, since, live, allsmall, cfail, faulted>>

TraceNext == EvReset \/ EvDict \/ EvSCfg \/ EvSIns \/ EvSInsFailed \/ EvCreateFail \/ EvCreate \/ EvDrop \/ EvSOut
TraceSpec == TraceInit /\ [][TraceNext]_vars
TraceAccepted ==
    LET d == TLCGet("stats").diameter IN
    IF d - 1 = Len(Rec) THEN TRUE
    ELSE /\ PrintT(<<"REJECTED-AT-LINE", d, Rec[d].ev>>) /\ FALSE
=============================================================================

SPECIFICATION TraceSpec
POSTCONDITION TraceAccepted
CHECK_DEADLOCK FALSE
CONSTANTS
  CheckFormat = FALSE
  CheckCut = TRUE
  CheckLower = TRUE
  CheckSorted = FALSE

---------------------------- MODULE TraceFaults ----------------------------
EXTENDS Integers, Sequences, TLC, Json, IOUtils, Faults
CONSTANT CheckLoads      \* C16: the per-operation bound on block loads also holds when a component fails
Rec == ndJsonDeserialize(IOEnv.TRACE)
VARIABLE l
IsEvent(e) == l <= Len(Rec) /\ Rec[l].ev = e /\ l' = l + 1
TraceInit == l = 1
EvReset == IsEvent("Reset")
LoadsOk(e) == CheckLoads => e.max_loads <= 2 * (e.levels + 2)
EvFClean == IsEvent("FClean") /\ (CheckLoads \/ CleanOk(Rec[l].notable, Rec[l].sink_writes, Rec[l].sink_flushes)) /\ LoadsOk(Rec[l])
EvFRun == IsEvent("FRun") /\ (CheckLoads \/ RunOk(Rec[l].kind, Rec[l].fired, Rec[l].notable)) /\ LoadsOk(Rec[l])
TraceNext == EvReset \/ EvFClean \/ EvFRun
TraceSpec == TraceInit /\ [][TraceNext]_l
TraceAccepted ==
    LET d == TLCGet("stats").diameter IN
    IF d - 1 = Len(Rec) THEN TRUE
    ELSE /\ PrintT(<<"REJECTED-AT-LINE", d, Rec[d].ev>>) /\ FALSE
=============================================================================

---------------------------- MODULE TraceFaults ----------------------------
EXTENDS Integers, Sequences, TLC, Json, IOUtils, Faults
Rec == ndJsonDeserialize(IOEnv.TRACE)
VARIABLE l
IsEvent(e) == l <= Len(Rec) /\ Rec[l].ev = e /\ l' = l + 1
TraceInit == l = 1
EvReset == IsEvent("Reset")
EvFClean == IsEvent("FClean") /\ CleanOk(Rec[l].notable, Rec[l].sink_writes, Rec[l].sink_flushes)
EvFRun == IsEvent("FRun") /\ RunOk(Rec[l].kind, Rec[l].fired, Rec[l].notable)
TraceNext == EvReset \/ EvFClean \/ EvFRun
TraceSpec == TraceInit /\ [][TraceNext]_l
TraceAccepted ==
    LET d == TLCGet("stats").diameter IN
    IF d - 1 = Len(Rec) THEN TRUE
    ELSE /\ PrintT(<<"REJECTED-AT-LINE", d, Rec[d].ev>>) /\ FALSE
=============================================================================

------------------------------ MODULE MCBytes ------------------------------
(* Validates the operators of Bytes.tla against their declarative definitions on every pair *)
(* of strings of length <= MaxLen over a small alphabet that includes 0 and 255.            *)
EXTENDS Bytes, FiniteSets, TLC
CONSTANTS Alphabet, MaxLen
RECURSIVE StrOfLen(_)
StrOfLen(n) == IF n = 0 THEN {<<>>} ELSE {Append(s, c) : s \in StrOfLen(n - 1), c \in Alphabet}
Strs == UNION {StrOfLen(n) : n \in 0..MaxLen}
VARIABLES a, b
Init == a \in Strs /\ b \in Strs
Next == UNCHANGED <<a, b>>
CmpAgrees == Cmp(a, b) = CmpRef(a, b)
OrderAgrees == (Lt(a, b) <=> LtDef(a, b)) /\ (Cmp(a, b) = 0 <=> a = b) /\ (Cmp(a, b) = -Cmp(b, a))
PrefixAgrees == IsPrefix(a, b) <=> IsPrefixDef(a, b)
\* Successor(p) is the least string above every string with prefix p
SuccessorOk ==
    LET s == Successor(a) IN
    IF s = NoSucc THEN (\A i \in 1..Len(a) : a[i] = 255)
    ELSE /\ (IsPrefix(a, b) => Lt(b, s))
         /\ ((~IsPrefix(a, b) /\ Lt(a, b)) => Le(s, b))
=============================================================================

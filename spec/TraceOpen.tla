----------------------------- MODULE TraceOpen -----------------------------
(* C13: every attempt of the real Reader::new on a byte string is an event `Try`;          *)
(* it must not panic and must succeed exactly when the string ends in a valid trailer.     *)
EXTENDS Integers, Sequences, TLC, Json, IOUtils
CONSTANTS MaxSize
VARIABLES size, magic, codec, pc, result      \* of the Level-B part of Trailer (unused here)
INSTANCE Trailer

Rec == ndJsonDeserialize(IOEnv.TRACE)
VARIABLE l
IsEvent(e) == l <= Len(Rec) /\ Rec[l].ev = e /\ l' = l + 1
Frozen == UNCHANGED <<size, magic, codec, pc, result>>
TraceInit == l = 1 /\ size = 0 /\ magic = "other" /\ codec = 0 /\ pc = "done" /\ result = "running"

EvReset == IsEvent("Reset") /\ Frozen
EvTry ==
    /\ IsEvent("Try")
    /\ LET e == Rec[l] IN
       /\ e.res \in {"ok", "err"}                                  \* never a panic
       /\ (e.res = "ok") <=> ValidTrailer(e.tail, e.size)
       /\ e.res = "ok" =>
            /\ e.ver = VersionOf(e.tail, e.size)
            /\ e.codec = CodecByte(e.tail, e.ver)
    /\ Frozen
TraceNext == EvReset \/ EvTry
TraceSpec == TraceInit /\ [][TraceNext]_<<l, size, magic, codec, pc, result>>
TraceAccepted ==
    LET d == TLCGet("stats").diameter IN
    IF d - 1 = Len(Rec) THEN TRUE
    ELSE /\ PrintT(<<"REJECTED-AT-LINE", d, Rec[d].ev>>) /\ FALSE
=============================================================================

SPECIFICATION MSpec
CONSTANTS
  NSrc = 5
  Keys = {1, 2, 3}
  TieBySourceIndex = TRUE
INVARIANTS OutPrefixOk DoneComplete
CHECK_DEADLOCK FALSE

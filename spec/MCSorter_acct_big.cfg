SPECIFICATION SSpec
CONSTANTS
  T = 216
  InitCap = 32
  Realloc = TRUE
  MaxChunks = 3
  Sizes = {0, 7, 38, 200, 700}
  KeysU = {1}
  TrackContent = FALSE
  MaxInserts = 0
  ExceededUsesCapacity = TRUE
  GenLen = 0
INVARIANTS Bookkeeping LiveBound2
CHECK_DEADLOCK FALSE

INIT Init
NEXT Next
CONSTANTS
  Alphabet = {0, 1, 254, 255}
  MaxLen = 4
INVARIANTS CmpAgrees OrderAgrees PrefixAgrees SuccessorOk
CHECK_DEADLOCK FALSE

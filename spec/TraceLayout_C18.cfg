SPECIFICATION TraceSpec
POSTCONDITION TraceAccepted
CHECK_DEADLOCK FALSE
CONSTANTS
  CheckFormat = FALSE
  CheckCut = FALSE
  CheckLower = FALSE
  CheckSorted = TRUE

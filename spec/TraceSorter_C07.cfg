SPECIFICATION TraceSpec
POSTCONDITION TraceAccepted
CHECK_DEADLOCK FALSE
CONSTANTS
  CheckOutput = TRUE
  CheckBounds = FALSE

---------------------------- MODULE TraceLayout ----------------------------
(***************************************************************************)
(* Trace validation of finished files against Layout.tla.                  *)
(*   C09: CheckFormat  -- sorted inserts: the bytes are a well-formed V2   *)
(*        file holding exactly the inserts; the frozen 0.4.7 reader scans  *)
(*        it, and files of the 0.4.7 writer are scanned by this reader.    *)
(*   C15: CheckCut     -- the block-cut rule on every subject block.       *)
(*   C18: CheckSorted  -- any insert sequence: panic, or only ascending    *)
(*        blocks.                                                          *)
(***************************************************************************)
EXTENDS Integers, Sequences, TLC, Json, IOUtils, Bytes, Layout

CONSTANTS CheckFormat, CheckCut, CheckLower, CheckSorted

Rec == ndJsonDeserialize(IOEnv.TRACE)

VARIABLES l, inserts, dict
vars == <<l, inserts, dict>>

TraceInit == l = 1 /\ inserts = <<>> /\ dict = <<>>

IsEvent(e) == l <= Len(Rec) /\ Rec[l].ev = e /\ l' = l + 1

EvReset == IsEvent("Reset") /\ inserts' = <<>> /\ dict' = <<>>

EvDict == IsEvent("Dict") /\ StrictlyAscending(Rec[l].strs) /\ dict' = Rec[l].strs /\ UNCHANGED inserts

\* a writer was configured, fed `inserts` (dictionary ranks) in this order and finished
EvWrote ==
    /\ IsEvent("Wrote")
    /\ LET e == Rec[l]
           B == EffBlockSize(e.bs) IN
       /\ inserts' = e.inserts
       /\ (CheckFormat \/ CheckCut) =>
            /\ Ascending(e.inserts)             \* these scenarios feed sorted input
            /\ e.ins = "ok" /\ e.fin = "ok"
       /\ CheckFormat => WellFormedV2(e.file, e.codec, e.k, e.levels, e.inserts)
       /\ CheckFormat => \A i \in 1..NB(e.file) : RawOk(e.file.blocks[i], dict)
       /\ dict' = dict
       /\ CheckCut =>
            /\ Root(e.file) # 0
            /\ TreeOk(e.file, Root(e.file), 0, e.levels)
            /\ CutRule(e.file, B, e.k, e.levels)
            /\ CheckLower => EarlyCuts(e.file, B, e.k, e.levels) = {}
       /\ CheckSorted =>
            /\ e.ins \in {"ok", "panic"} /\ e.fin \in {"ok", "panic", "skipped"}
            /\ (e.ins = "ok" /\ e.fin = "ok") => BlocksAscending(e.file)

\* the same content read back by another implementation of the format (C09)
EvInterop ==
    /\ IsEvent("Interop")
    /\ LET e == Rec[l] IN
       /\ e.res = "ok"
       /\ e.len = Len(inserts)
       /\ e.fwd = [x \in 1..Len(inserts) |-> x]
       /\ e.bwd = [x \in 1..Len(inserts) |-> Len(inserts) - x + 1]
    /\ UNCHANGED <<inserts, dict>>

\* a chunk file written by the sorter itself (spilled run or merged chunks), captured from the
\* instrumented chunk storage: same format, same cut rule, content not known in advance
EvChunkRun == IsEvent("ChunkRun") /\ Rec[l].res = "ok" /\ UNCHANGED <<inserts, dict>>
EvChunk ==
    /\ IsEvent("Chunk")
    /\ LET e == Rec[l]
           B == EffBlockSize(e.bs) IN
       /\ CheckFormat => StructOk(e.file, e.codec, e.k, e.levels)
       /\ CheckCut =>
            /\ Root(e.file) # 0
            /\ TreeOk(e.file, Root(e.file), 0, e.levels)
            /\ CutRule(e.file, B, e.k, e.levels)
            /\ CheckLower => EarlyCuts(e.file, B, e.k, e.levels) = {}
       /\ CheckSorted => BlocksAscending(e.file)
       /\ CheckFormat => \A i \in 1..NB(e.file) : RawOk(e.file.blocks[i], dict)
    /\ UNCHANGED <<inserts, dict>>

TraceNext == EvReset \/ EvDict \/ EvWrote \/ EvInterop \/ EvChunkRun \/ EvChunk

TraceSpec == TraceInit /\ [][TraceNext]_vars

TraceAccepted ==
    LET d == TLCGet("stats").diameter IN
    IF d - 1 = Len(Rec) THEN TRUE
    ELSE /\ PrintT(<<"REJECTED-AT-LINE", d, Rec[d].ev>>)
         /\ FALSE
=============================================================================

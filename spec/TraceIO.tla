------------------------------ MODULE TraceIO ------------------------------
(***************************************************************************)
(* C11, write side.  WRef: the stream (length and two digests) the writer  *)
(* handed to a sink that accepts whole buffers.  WRun: the same scenario   *)
(* under another schedule of partial writes / interruptions (or simply     *)
(* repeated).  The stream must be a function of configuration and entries  *)
(* only.                                                                   *)
(***************************************************************************)
EXTENDS Integers, Sequences, TLC, Json, IOUtils
Rec == ndJsonDeserialize(IOEnv.TRACE)
VARIABLES l, ref
vars == <<l, ref>>
None == [len |-> -1, d1 |-> -1, d2 |-> -1]
TraceInit == l = 1 /\ ref = None
IsEvent(e) == l <= Len(Rec) /\ Rec[l].ev = e /\ l' = l + 1
EvReset == IsEvent("Reset") /\ ref' = None
EvWRef == IsEvent("WRef") /\ Rec[l].res = "ok" /\ ref' = [len |-> Rec[l].len, d1 |-> Rec[l].d1, d2 |-> Rec[l].d2]
EvWRun ==
    /\ IsEvent("WRun")
    /\ ref # None
    /\ Rec[l].res = "ok"                       \* an interruption or a partial write is not a failure
    /\ [len |-> Rec[l].len, d1 |-> Rec[l].d1, d2 |-> Rec[l].d2] = ref
    /\ UNCHANGED ref
\* Append-only writer: `during` = (length, digests) of what the sink held after each insert,
\* `final` = the same for the prefixes of the finished file of those lengths.
EvWPrefix ==
    /\ IsEvent("WPrefix")
    /\ LET e == Rec[l] IN
       /\ Len(e.during) = e.n /\ Len(e.final) = e.n
       /\ \A i \in 1..e.n : e.during[i] = e.final[i]                       \* a prefix of the final file
       /\ \A i \in 1..(e.n - 1) : e.during[i][1] <= e.during[i + 1][1]     \* never shrinks
       /\ \A i \in 1..e.n : e.during[i][1] <= e.size - 22                  \* the trailer comes last
    /\ UNCHANGED ref
EvWPrefixSkip == IsEvent("WPrefixSkip") /\ UNCHANGED ref

TraceNext == EvReset \/ EvWRef \/ EvWRun \/ EvWPrefix \/ EvWPrefixSkip
TraceSpec == TraceInit /\ [][TraceNext]_vars
TraceAccepted ==
    LET d == TLCGet("stats").diameter IN
    IF d - 1 = Len(Rec) THEN TRUE
    ELSE /\ PrintT(<<"REJECTED-AT-LINE", d, Rec[d].ev>>) /\ FALSE
=============================================================================

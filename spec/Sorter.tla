------------------------------- MODULE Sorter -------------------------------
(***************************************************************************)
(* Level B: grenad's Sorter as it is coded.                                *)
(*   Entries          two-ended buffer: 16-byte bounds at the front, key   *)
(*                    and value bytes at the back; fits / insert (doubling *)
(*                    until the entry fits, with no threshold test inside) *)
(*   Sorter::insert   fits, or (capacity below the threshold and realloc   *)
(*                    allowed) -> store; else spill (write_chunk), store,  *)
(*                    and merge all chunks into one when their number      *)
(*                    reaches the maximum                                  *)
(*   finishing        unconditional final write_chunk, then k-way merge of *)
(*                    the runs in age order                                *)
(* Byte-exact accounting (cap, elen, nb) and, when TrackContent, the       *)
(* content (stable sort; the unstable sort refines it up to permutation).  *)
(* Checked by TLC against SorterContract (C07), the spill bounds (C08) and *)
(* the bookkeeping invariants behind C17.  With TrackContent = FALSE the   *)
(* state space is finite, so insert sequences of UNBOUNDED length are      *)
(* covered.                                                                *)
(***************************************************************************)
EXTENDS Integers, Sequences, FiniteSets, TLC, SorterContract, SorterAcct

CONSTANTS
    T,                    \* effective dump threshold (bytes)
    InitCap,              \* initial capacity when reallocation is allowed
    Realloc,              \* allow_realloc
    MaxChunks,            \* max_nb_chunks (>= 1)
    Sizes,                \* key + value byte sizes the environment may insert
    KeysU,                \* key universe (integers), used when TrackContent
    TrackContent,         \* also model the content (bounded runs) or only the accounting
    MaxInserts,           \* bound on inserts when TrackContent (0 = unbounded)
    ExceededUsesCapacity, \* TRUE: threshold_exceeded compares the buffer capacity (as coded)
    GenLen                \* test generation: record the inserted sizes and print them at this length (0 = off)

Cfg == [t |-> T, init |-> InitCap, realloc |-> Realloc, maxc |-> MaxChunks, bycap |-> ExceededUsesCapacity]

VARIABLES
    cap, elen, nb,     \* Entries: buffer length, bytes of entries, number of bounds
    nchunks,           \* chunks held by the sorter
    since,             \* key + value bytes inserted since the last spill (or creation)
    peak,              \* largest number of chunk objects alive during the last call
    creates,           \* calls to the chunk creator so far (modulo content tracking)
    mem,               \* pending entries [k, id, size]            (TrackContent)
    runs,              \* spilled runs, oldest first; a run is a sequence of [k, v]  (TrackContent)
    ins,               \* everything inserted                       (TrackContent)
    output,            \* the final output once finished
    phase,             \* "open" | "done"
    allsmall,          \* only small entries so far (the assumption of C08)
    sh                 \* sizes inserted so far with the accounting predicted after each (GenLen > 0 only)
svars == <<cap, elen, nb, nchunks, since, peak, creates, mem, runs, ins, output, phase, allsmall, sh>>

SInit ==
    /\ cap = AcctInit(Cfg).cap
    /\ elen = 0 /\ nb = 0 /\ nchunks = 0 /\ since = 0 /\ peak = 0 /\ creates = 0
    /\ mem = <<>> /\ runs = <<>> /\ ins = <<>> /\ output = <<>> /\ phase = "open" /\ allsmall = TRUE /\ sh = <<>>

Acct == [cap |-> cap, elen |-> elen, nb |-> nb, nchunks |-> nchunks]

\* sort by key (stable), group equal keys, merge each group: one sorted run
RunOf(m) ==
    LET ks == {m[i].k : i \in 1..Len(m)}
        sorted == CHOOSE s \in [1..Cardinality(ks) -> ks] :
                      (\A i \in 1..(Cardinality(ks) - 1) : s[i] < s[i + 1]) IN
    [x \in 1..Cardinality(ks) |->
        [k |-> sorted[x],
         v |-> LET sel == SelectSeq(m, LAMBDA e : e.k = sorted[x]) IN [i \in 1..Len(sel) |-> sel[i].id]]]

\* k-way merge of runs in age order: values of a key concatenated oldest run first
RECURSIVE ValuesOf(_, _, _)
ValuesOf(rs, k, i) ==
    IF i > Len(rs) THEN <<>>
    ELSE LET hit == SelectSeq(rs[i], LAMBDA e : e.k = k) IN
         (IF Len(hit) = 0 THEN <<>> ELSE hit[1].v) \o ValuesOf(rs, k, i + 1)
MergeRuns(rs) ==
    LET ks == UNION {{rs[i][j].k : j \in 1..Len(rs[i])} : i \in 1..Len(rs)}
        sorted == CHOOSE s \in [1..Cardinality(ks) -> ks] :
                      (\A i \in 1..(Cardinality(ks) - 1) : s[i] < s[i + 1]) IN
    [x \in 1..Cardinality(ks) |-> [k |-> sorted[x], v |-> ValuesOf(rs, sorted[x], 1)]]

Insert(k, sz) ==
    /\ phase = "open"
    /\ (GenLen > 0) => Len(sh) < GenLen
    /\ (TrackContent /\ MaxInserts > 0) => Len(ins) < MaxInserts
    /\ LET id == Len(ins) + 1
           e == [k |-> k, id |-> id, size |-> sz] IN
       /\ ins' = IF TrackContent THEN Append(ins, e) ELSE ins
       /\ allsmall' = (allsmall /\ Small(sz, T))
       /\ LET r == AcctInsert(Cfg, Acct, sz) IN
          /\ cap' = r.a.cap /\ elen' = r.a.elen /\ nb' = r.a.nb /\ nchunks' = r.a.nchunks
          /\ sh' = IF GenLen > 0 THEN Append(sh, <<sz, r.a.cap, r.a.elen, r.a.nb, r.a.nchunks>>) ELSE sh
          /\ peak' = r.peak
          /\ since' = IF r.spilled THEN sz ELSE since + sz
          /\ creates' = IF TrackContent THEN creates ELSE (IF r.merged THEN 2 ELSE IF r.spilled THEN 1 ELSE 0)
          /\ mem' = IF ~TrackContent THEN mem ELSE IF r.spilled THEN <<e>> ELSE Append(mem, e)
          /\ runs' = IF ~TrackContent \/ ~r.spilled THEN runs
                     ELSE IF r.merged THEN <<MergeRuns(Append(runs, RunOf(mem)))>>
                     ELSE Append(runs, RunOf(mem))
    /\ UNCHANGED <<output, phase>>

\* into_stream_merger_iter / write_into_stream_writer / into_reader_cursors + Merger
Finish ==
    /\ phase = "open"
    /\ phase' = "done"
    /\ nchunks' = nchunks + 1 /\ peak' = nchunks + 1
    /\ elen' = 0 /\ nb' = 0 /\ since' = 0
    /\ output' = IF TrackContent THEN MergeRuns(Append(runs, RunOf(mem))) ELSE output
    /\ UNCHANGED <<cap, creates, mem, runs, ins, allsmall, sh>>

SNext ==
    \/ \E k \in KeysU, sz \in Sizes : Insert(k, sz)
    \/ (TrackContent /\ Finish)
SSpec == SInit /\ [][SNext]_svars

-----------------------------------------------------------------------------
\* C17 (bookkeeping): the two regions of the buffer never overlap; sizes stay multiples of 16
Bookkeeping == cap % 16 = 0 /\ 16 * nb + elen <= cap /\ nb >= 0 /\ elen >= 0
\* C08: unspilled volume and live chunks
VolumeBound == allsmall => since <= Bound(T, Realloc)
LiveBound2 == peak <= LiveBound(MaxChunks)
\* C07: the output is the stable group-by of the inserts
OutputCorrect == phase = "done" => OutputOk(ins, output, TRUE, "join")
\* test generation (tlc -simulate): one line per behaviour that reached GenLen inserts
EmitSizes == (GenLen > 0 /\ Len(sh) = GenLen) => PrintT("SSEQ " \o ToString(sh))
=============================================================================

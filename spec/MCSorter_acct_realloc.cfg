SPECIFICATION SSpec
CONSTANTS
  T = 216
  InitCap = 32
  Realloc = TRUE
  MaxChunks = 2
  Sizes = {0, 1, 7, 16, 20, 33, 38}
  KeysU = {1}
  TrackContent = FALSE
  MaxInserts = 0
  ExceededUsesCapacity = TRUE
INVARIANTS Bookkeeping VolumeBound LiveBound2
CHECK_DEADLOCK FALSE

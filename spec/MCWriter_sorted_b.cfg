SPECIFICATION WSpec
CONSTANTS
  L = 2
  K = 2
  BlockSize = 0
  MinBlock = 48
  KeyLen <- MCKeyLen
  ValLens = {0, 9, 40}
  MaxInserts = 7
  SortedOnly = TRUE
  Keys = {1,2,3,4,5,6,7}
  LevelsFitU8 = TRUE
  Consecutive = FALSE
  MinFinish = 0
INVARIANTS FinishedWellFormed SortedNeverPanics FinishedAscending
PROPERTY AppendOnly
CHECK_DEADLOCK FALSE

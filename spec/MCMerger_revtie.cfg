SPECIFICATION MSpec
CONSTANTS
  NSrc = 3
  Keys = {1, 2, 3, 4}
  TieBySourceIndex = FALSE
INVARIANTS OutPrefixOk DoneComplete
CHECK_DEADLOCK FALSE

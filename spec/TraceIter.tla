----------------------------- MODULE TraceIter -----------------------------
(* Trace validation of range / prefix iterator runs of the real code (C04, C05, C10). *)
EXTENDS Integers, Sequences, TLC, Json, IOUtils, Iterators

Rec == ndJsonDeserialize(IOEnv.TRACE)

VARIABLES l, dict, content
vars == <<l, dict, content>>

TraceInit == l = 1 /\ dict = <<>> /\ content = EmptyContent
IsEvent(e) == l <= Len(Rec) /\ Rec[l].ev = e /\ l' = l + 1

EvReset == IsEvent("Reset") /\ dict' = <<>> /\ content' = EmptyContent
EvDict == IsEvent("Dict") /\ StrictlyAscending(Rec[l].strs) /\ dict' = Rec[l].strs /\ UNCHANGED content
EvWritten ==
    /\ IsEvent("Written")
    /\ Rec[l].ins = "ok" /\ Rec[l].fin = "ok" /\ Rec[l].kind = "list"
    /\ content' = ListContent(Rec[l].keys)
    /\ WellFormed(content')
    /\ UNCHANGED dict
\* one whole iterator run: created on a fresh reader, next() until the first None
EvIter ==
    /\ IsEvent("Iter")
    /\ LET e == Rec[l] IN
       /\ e.res = "ok"
       /\ e.out = IterAnswer(content, dict, e.kind, e.lo, e.hi, e.p)
    /\ UNCHANGED <<dict, content>>

TraceNext == EvReset \/ EvDict \/ EvWritten \/ EvIter
TraceSpec == TraceInit /\ [][TraceNext]_vars
TraceAccepted ==
    LET d == TLCGet("stats").diameter IN
    IF d - 1 = Len(Rec) THEN TRUE
    ELSE /\ PrintT(<<"REJECTED-AT-LINE", d, Rec[d].ev>>) /\ FALSE
=============================================================================

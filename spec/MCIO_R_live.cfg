SPECIFICATION RLiveAll
CONSTANTS
  Buffers <- MCBuffers
  Data <- MCData
  Wants <- MCWants
  MaxIntr = 2
  CountAccepted = TRUE
PROPERTIES RTerminates RMonotone
CHECK_DEADLOCK FALSE

----------------------------- MODULE VarintApa -----------------------------
(***************************************************************************)
(* Apalache (symbolic) proof of Varint!RoundTrip for the WHOLE domain      *)
(* 0 .. 2^32-1 in 7-bit group form, with arbitrary bytes following the     *)
(* encoding (or the buffer ending right after it).  Same definitions as    *)
(* Varint.tla, unrolled over five byte slots so that only linear integer   *)
(* arithmetic is needed.                                                   *)
(*   apalache-mc check --init=Init --next=Next --inv=Inv --length=0        *)
(***************************************************************************)
EXTENDS Integers

VARIABLES
    \* @type: Int;
    g1,
    \* @type: Int;
    g2,
    \* @type: Int;
    g3,
    \* @type: Int;
    g4,
    \* @type: Int;
    g5,
    \* @type: Int;
    x2,
    \* @type: Int;
    x3,
    \* @type: Int;
    x4,
    \* @type: Int;
    x5,
    \* @type: Int;
    avail

Init ==
    /\ g1 \in 0..127 /\ g2 \in 0..127 /\ g3 \in 0..127 /\ g4 \in 0..127 /\ g5 \in 0..15
    /\ x2 \in 0..255 /\ x3 \in 0..255 /\ x4 \in 0..255 /\ x5 \in 0..255
    /\ avail \in 1..5
Next == UNCHANGED <<g1, g2, g3, g4, g5, x2, x3, x4, x5, avail>>

EncLen == IF g5 # 0 THEN 5 ELSE IF g4 # 0 THEN 4 ELSE IF g3 # 0 THEN 3 ELSE IF g2 # 0 THEN 2 ELSE 1

\* the bytes the decoder sees: the encoding, then whatever follows
B1 == IF 1 < EncLen THEN g1 + 128 ELSE g1
B2 == IF 2 < EncLen THEN g2 + 128 ELSE IF 2 = EncLen THEN g2 ELSE x2
B3 == IF 3 < EncLen THEN g3 + 128 ELSE IF 3 = EncLen THEN g3 ELSE x3
B4 == IF 4 < EncLen THEN g4 + 128 ELSE IF 4 = EncLen THEN g4 ELSE x4
B5 == IF 5 = EncLen THEN g5 ELSE x5

\* varint_length_packed over the first min(5, len) = avail bytes
PackedLen ==
    IF B1 < 128 THEN 1
    ELSE IF avail >= 2 /\ B2 < 128 THEN 2
    ELSE IF avail >= 3 /\ B3 < 128 THEN 3
    ELSE IF avail >= 4 /\ B4 < 128 THEN 4
    ELSE IF avail >= 5 /\ B5 < 128 THEN 5
    ELSE 0

Low7(b) == IF b >= 128 THEN b - 128 ELSE b
D1 == Low7(B1)
D2 == IF PackedLen >= 2 THEN Low7(B2) ELSE 0
D3 == IF PackedLen >= 3 THEN Low7(B3) ELSE 0
D4 == IF PackedLen >= 4 THEN Low7(B4) ELSE 0
D5 == IF PackedLen >= 5 THEN B5 % 16 ELSE 0

\* whenever the buffer holds at least the encoding
Inv ==
    avail >= EncLen =>
        /\ EncLen >= 1 /\ EncLen <= 5
        /\ PackedLen = EncLen
        /\ D1 = g1 /\ D2 = g2 /\ D3 = g3 /\ D4 = g4 /\ D5 = g5
=============================================================================

------------------------------ MODULE MCVarint ------------------------------
(* TLC: RoundTrip for every group tuple drawn from a set of group values that contains the     *)
(* framing boundaries (0, 1, 127 per group; 15 for the top group), with and without trailing   *)
(* bytes -- 4^4 * 4 tuples x 4 trailers; plus agreement of the group form with the numeric     *)
(* value for n < 2^31.  Apalache proves RoundTrip for the whole domain (VarintApa.tla).        *)
EXTENDS Varint, TLC
CONSTANTS GV, TopGV
Trails == {<<>>, <<0>>, <<128>>, <<255, 255, 255, 255, 255>>, <<127, 3>>}
VARIABLES g, t
Init == g \in {<<a, b, c, d, e>> : a \in GV, b \in GV, c \in GV, d \in GV, e \in TopGV} /\ t \in Trails
Next == UNCHANGED <<g, t>>
RT == RoundTrip(g, t)
ValueAgrees == g[5] < 8 => GroupsOf(ValueOf(g)) = g
LenBoundaries ==
    /\ (g[5] < 8 /\ ValueOf(g) < 128) <=> EncLen(g) = 1
    /\ (g[5] < 8 /\ ValueOf(g) >= 128 /\ ValueOf(g) < 16384) <=> EncLen(g) = 2
    /\ (g[5] < 8 /\ ValueOf(g) >= 16384 /\ ValueOf(g) < 2097152) <=> EncLen(g) = 3
    /\ (g[5] < 8 /\ ValueOf(g) >= 2097152 /\ ValueOf(g) < 268435456) <=> EncLen(g) = 4
=============================================================================

SPECIFICATION TraceSpec
POSTCONDITION TraceAccepted
CHECK_DEADLOCK FALSE
CONSTANT MaxSize = 0

------------------------------- MODULE Layout -------------------------------
(***************************************************************************)
(* Level A for C09 / C15 / C18: what a finished version-2 file must look   *)
(* like.  Pure predicates over the structure recovered from the bytes by   *)
(* the independent decoder:                                                *)
(*   f      = [size, trailer, blocks, slack, error]                        *)
(*   block  = [off, stored, usize, payload, table, count, keys, v8, vm,    *)
(*             eoffs, esz, junk]                                           *)
(* keys are dictionary ranks (0 = a key that was never inserted), v8 is    *)
(* the value read as a big-endian u64 (-1 if it is not 8 bytes long), vm   *)
(* the position of the inserted pair with exactly these bytes (0 = none),  *)
(* eoffs / esz the offset and framed size of every entry in the payload.   *)
(***************************************************************************)
EXTENDS Integers, Sequences, FiniteSets, Varint

NB(f) == Len(f.blocks)
NE(b) == Len(b.keys)

\* little-endian u64 at s[i..i+7]; representable in TLC only below 2^31
LE64Fits(s, i) == s[i + 3] < 128 /\ \A j \in (i + 4)..(i + 7) : s[j] = 0
LE64(s, i) == s[i] + 256 * s[i + 1] + 65536 * s[i + 2] + 16777216 * s[i + 3]

MagicV2 == <<196, 212, 35, 103>>      \* 0x6723D4C4 little-endian
MagicV1 == <<76, 77, 50, 118>>        \* 0x76324D4C little-endian

RootOffset(f) == LE64(f.trailer, 1)

\* 22-byte trailer: root offset, codec id, entry count, index levels, magic
TrailerOk(f, codec, levels, nins) ==
    /\ Len(f.trailer) = 22
    /\ LE64Fits(f.trailer, 1) /\ LE64Fits(f.trailer, 10)
    /\ f.trailer[9] = codec
    /\ LE64(f.trailer, 10) = nins
    /\ f.trailer[18] = levels
    /\ SubSeq(f.trailer, 19, 22) = MagicV2

\* blocks, each prefixed by its stored length, tile the file from 0 to the trailer
Contiguous(f) ==
    /\ f.error = "" /\ f.slack = 0
    /\ NB(f) >= 1
    /\ f.blocks[1].off = 0
    /\ \A i \in 1..(NB(f) - 1) : f.blocks[i + 1].off = f.blocks[i].off + 8 + f.blocks[i].stored
    /\ f.blocks[NB(f)].off + 8 + f.blocks[NB(f)].stored = f.size - Len(f.trailer)

\* entries ++ offset table ++ count; first offset 0, one offset per K entries, at entry starts
BlockOk(b, K) ==
    LET n == NE(b) IN
    /\ b.junk = 0
    /\ b.count = Len(b.table) /\ b.count >= 1
    /\ b.usize = b.payload + 8 * b.count + 4
    /\ b.table[1] = 0
    /\ IF n = 0 THEN b.payload = 0
       ELSE /\ b.eoffs[1] = 0
            /\ \A j \in 1..(n - 1) : b.eoffs[j + 1] = b.eoffs[j] + b.esz[j]
            /\ b.eoffs[n] + b.esz[n] = b.payload
    /\ Len(b.table) = (IF n = 0 THEN 1 ELSE (n + K - 1) \div K)
    /\ \A j \in 2..Len(b.table) : b.table[j] = b.eoffs[(j - 1) * K + 1]

(***************************************************************************)
(* Byte-level cross-check of the decoder (small blocks carry their raw     *)
(* uncompressed bytes): TLC parses the block itself -- count (u32 BE),     *)
(* offset table (u64 BE each), then entries framed by two varint lengths   *)
(* (Varint!Dec) -- and requires the decoder's entry offsets, sizes and     *)
(* table to be exactly that, and every key to be the dictionary string it  *)
(* was named after.                                                        *)
(***************************************************************************)
BE32(s, i) == 16777216 * s[i] + 65536 * s[i + 1] + 256 * s[i + 2] + s[i + 3]
BE64Fits(s, i) == (\A j \in i..(i + 3) : s[j] = 0) /\ s[i + 4] < 128
BE64(s, i) == BE32(s, i + 4)
LenAt(raw, p, limit) ==            \* [n |-> decoded length, used |-> bytes of the varint] at 0-based offset p
    LET b == SubSeq(raw, p + 1, IF p + 5 <= limit THEN p + 5 ELSE limit) IN
    [n |-> ValueOf(Dec(b)), used |-> PackedLen(b)]
RECURSIVE ParseEntries(_, _, _)
ParseEntries(raw, p, payload) ==   \* sequence of [off, size, kfrom, kto] (key bytes = raw[kfrom..kto], 1-based)
    IF p >= payload THEN <<>>
    ELSE LET k == LenAt(raw, p, payload)
             v == LenAt(raw, p + k.used, payload)
             start == p + k.used + v.used
             size == k.used + v.used + k.n + v.n IN
         IF k.used = 0 \/ v.used = 0 \/ p + size > payload THEN << [off |-> -1, size |-> 0, kfrom |-> 1, kto |-> 0] >>
         ELSE << [off |-> p, size |-> size, kfrom |-> start + 1, kto |-> start + k.n] >> \o ParseEntries(raw, p + size, payload)

RawOk(b, dict) ==
    b.raw = <<>> \/
    LET raw == b.raw
        total == Len(raw)
        count == BE32(raw, total - 3)
        payload == total - 4 - 8 * count
        es == ParseEntries(raw, 0, payload) IN
    /\ total = b.usize /\ count = b.count /\ payload = b.payload
    /\ \A j \in 1..count : BE64Fits(raw, payload + 8 * (j - 1) + 1) /\ BE64(raw, payload + 8 * (j - 1) + 1) = b.table[j]
    /\ Len(es) = Len(b.keys)
    /\ \A i \in 1..Len(es) :
         /\ es[i].off = b.eoffs[i] /\ es[i].size = b.esz[i]
         /\ b.keys[i] > 0 => SubSeq(raw, es[i].kfrom, es[i].kto) = dict[b.keys[i]]

Ascending(ks) == \A i \in 1..(Len(ks) - 1) : ks[i] < ks[i + 1]

\* C18: every block, data and index alike, holds known keys in strictly ascending order
BlocksAscending(f) ==
    \A i \in 1..NB(f) : Ascending(f.blocks[i].keys) /\ \A j \in 1..NE(f.blocks[i]) : f.blocks[i].keys[j] > 0

BlockAt(f, off) ==
    IF \E i \in 1..NB(f) : f.blocks[i].off = off
    THEN CHOOSE i \in 1..NB(f) : f.blocks[i].off = off
    ELSE 0

\* Block i at depth d (root = depth 0) is an index block for d <= L and a data block for
\* d = L + 1.  Every index entry maps the LAST key of a non-empty child to the child's offset.
RECURSIVE TreeOk(_, _, _, _)
TreeOk(f, i, d, L) ==
    IF d = L + 1 THEN TRUE
    ELSE LET b == f.blocks[i] IN
         \A j \in 1..NE(b) :
            LET c == BlockAt(f, b.v8[j]) IN
            /\ b.v8[j] >= 0
            /\ c # 0
            /\ NE(f.blocks[c]) > 0
            /\ b.keys[j] = f.blocks[c].keys[NE(f.blocks[c])]
            /\ TreeOk(f, c, d + 1, L)

\* post-order list of <<block, depth>> below (and including) block i
RECURSIVE Visit(_, _, _, _), VisitChildren(_, _, _, _, _)
VisitChildren(f, i, j, d, L) ==
    IF j > NE(f.blocks[i]) THEN <<>>
    ELSE Visit(f, BlockAt(f, f.blocks[i].v8[j]), d + 1, L) \o VisitChildren(f, i, j + 1, d, L)
Visit(f, i, d, L) ==
    IF d = L + 1 THEN << <<i, d>> >>
    ELSE VisitChildren(f, i, 1, d, L) \o << <<i, d>> >>

Root(f) == BlockAt(f, RootOffset(f))

Tree(f, L) == Visit(f, Root(f), 0, L)

\* every block of the file is reached exactly once from the root
TreeCovers(f, L) ==
    LET t == Tree(f, L) IN
    /\ Len(t) = NB(f)
    /\ {t[x][1] : x \in 1..Len(t)} = 1..NB(f)

\* the data blocks, in tree order, hold exactly the inserted pairs in insertion order
RECURSIVE DataKeys(_, _, _, _), DataVm(_, _, _, _)
DataKeys(f, t, x, L) ==
    IF x > Len(t) THEN <<>>
    ELSE (IF t[x][2] = L + 1 THEN f.blocks[t[x][1]].keys ELSE <<>>) \o DataKeys(f, t, x + 1, L)
DataVm(f, t, x, L) ==
    IF x > Len(t) THEN <<>>
    ELSE (IF t[x][2] = L + 1 THEN f.blocks[t[x][1]].vm ELSE <<>>) \o DataVm(f, t, x + 1, L)

Holds(f, L, inserts) ==
    LET t == Tree(f, L) IN
    /\ DataKeys(f, t, 1, L) = inserts
    /\ DataVm(f, t, 1, L) = [x \in 1..Len(inserts) |-> x]

\* C09: a well-formed version-2 file holding exactly `inserts` (dictionary ranks, ascending)
WellFormedV2(f, codec, K, L, inserts) ==
    /\ TrailerOk(f, codec, L, Len(inserts))
    /\ Contiguous(f)
    /\ \A i \in 1..NB(f) : BlockOk(f.blocks[i], K)
    /\ BlocksAscending(f)
    /\ Root(f) # 0
    /\ TreeOk(f, Root(f), 0, L)
    /\ TreeCovers(f, L)
    /\ Holds(f, L, inserts)

\* number of entries held by the data blocks of the tree
RECURSIVE CountData(_, _, _, _)
CountData(f, t, x, L) ==
    IF x > Len(t) THEN 0
    ELSE (IF t[x][2] = L + 1 THEN NE(f.blocks[t[x][1]]) ELSE 0) + CountData(f, t, x + 1, L)

\* a well-formed version-2 file whose content is not known in advance (the chunk files a sorter
\* writes): everything of WellFormedV2 except the comparison with the inserts
StructOk(f, codec, K, L) ==
    /\ Len(f.trailer) = 22
    /\ LE64Fits(f.trailer, 1) /\ LE64Fits(f.trailer, 10)
    /\ f.trailer[9] = codec /\ f.trailer[18] = L /\ SubSeq(f.trailer, 19, 22) = MagicV2
    /\ Contiguous(f)
    /\ \A i \in 1..NB(f) : BlockOk(f.blocks[i], K)
    /\ BlocksAscending(f)
    /\ Root(f) # 0
    /\ TreeOk(f, Root(f), 0, L)
    /\ TreeCovers(f, L)
    /\ LE64(f.trailer, 10) = CountData(f, Tree(f, L), 1, L)
    /\ Ascending(DataKeys(f, Tree(f, L), 1, L))

(***************************************************************************)
(* C15.  B is the effective block size (after the 1024 clamp).  A data     *)
(* block, or an index block at depth >= 2, was emitted as soon as it       *)
(* reached B: without its final entry (and without the table slot that     *)
(* entry may have opened) it is smaller than B.                            *)
(***************************************************************************)
Max(a, b) == IF a >= b THEN a ELSE b
EffBlockSize(bs) == Max(1024, bs)

SizeWithoutLast(b, K) ==
    LET n == NE(b)
        opened == n > 1 /\ (n - 1) % K = 0 IN
    b.usize - b.esz[n] - (IF opened THEN 8 ELSE 0)

Subject(d, L) == d = L + 1 \/ d >= 2

CutRule(f, B, K, L) ==
    LET t == Tree(f, L) IN
    \A x \in 1..Len(t) :
        LET b == f.blocks[t[x][1]] IN
        (Subject(t[x][2], L) /\ NE(b) >= 1) => SizeWithoutLast(b, K) < B

\* Not demanded by the statement, reported as a note only: a block that is not the last of
\* its depth was emitted by the size rule, so it had reached B.
EarlyCuts(f, B, K, L) ==
    LET t == Tree(f, L) IN
    {x \in 1..Len(t) :
        /\ Subject(t[x][2], L)
        /\ \E y \in (x + 1)..Len(t) : t[y][2] = t[x][2]
        /\ f.blocks[t[x][1]].usize < B}
=============================================================================

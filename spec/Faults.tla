------------------------------- MODULE Faults -------------------------------
(***************************************************************************)
(* C12 contract.  A run is a sequence of public calls against components   *)
(* supplied by the user, in which at most one component call was made to   *)
(* fail (kind).  For every public call the harness reports its result      *)
(* class and whether the injected fault fired during it.                   *)
(*   - the call during which a component failed returns an error of the    *)
(*     class of that failure -- never ok, never a panic;                   *)
(*   - a call during which nothing failed returns ok.                      *)
(* `notable` lists exactly the calls that did not return ok or during      *)
(* which the fault fired; the run stops at the first call that did not     *)
(* return ok.                                                              *)
(***************************************************************************)
EXTENDS Integers, Sequences

\* class of error the public call must return for an injected failure kind
ClassOf(kind) ==
    CASE kind \in {"other", "eof", "denied", "timeout", "wouldblock", "zero", "create:io"} -> "io"   \* an I/O error as an I/O error
      [] kind = "merge"        -> "merge"                                   \* a merge error as a merge error
      [] kind = "create:fmt"   -> "fmt"                                     \* the creator's own error variant
      [] kind = "create:codec" -> "codec"

CallOk(c, kind) == IF c.fired THEN c.res = ClassOf(kind) ELSE c.res = "ok"

\* Cursor programs keep issuing operations after the failed one: what those answer is not specified
\* (an error is acceptable), but none of them may panic -- no component fails during them.
RunOk(kind, fired, notable) ==
    /\ Len(notable) >= 1 => CallOk(notable[1], kind)
    /\ \A i \in 2..Len(notable) : ~notable[i].fired /\ notable[i].res # "panic"
    /\ fired <=> (Len(notable) >= 1 /\ notable[1].fired)

\* when no component fails, no error is reported; and a sink that was written to has been
\* flushed before it is handed back (otherwise a failure of the sink's flush could never surface)
CleanOk(notable, writes, flushes) == notable = <<>> /\ (writes > 0 => flushes > 0)
=============================================================================

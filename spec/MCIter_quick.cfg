INIT Init
NEXT Next
CONSTANT MaxContent = 3
INVARIANTS ContentAscending RangeOk PrefixOk
CHECK_DEADLOCK FALSE

----------------------------- MODULE CursorSpec -----------------------------
(***************************************************************************)
(* Level A contract of a grenad cursor (properties C02, C03).              *)
(*                                                                         *)
(* The abstract state of a cursor is                                       *)
(*    pos  : index (1..n) of the last entry an operation returned, 0 if    *)
(*           the cursor was never positioned or has been reset             *)
(*    zone : TRUE after some operation returned None and no absolute       *)
(*           operation has returned an entry since (and no reset) -- the   *)
(*           only situation in which the statement leaves relative moves   *)
(*           unspecified.                                                  *)
(* Every result is a function of (content, state, operation) except in the *)
(* zone, where next / prev / current may answer any entry of the file or   *)
(* None.  Results are entry indices, 0 = None.                             *)
(***************************************************************************)
EXTENDS Store

AbsOps == {"first", "last", "ge", "le", "eq"}
RelOps == {"next", "prev"}
Ops == AbsOps \cup RelOps \cup {"current", "reset"}

Fresh == [pos |-> 0, zone |-> FALSE]

AbsAnswer(c, op, q) ==
    CASE op = "first" -> (IF N(c) = 0 THEN 0 ELSE 1)
      [] op = "last"  -> N(c)
      [] op = "ge"    -> Ceil(c, q)
      [] op = "le"    -> Floor(c, q)
      [] op = "eq"    -> Exact(c, q)

RelAnswer(c, st, op) ==
    IF op = "next"
    THEN (IF st.pos = 0 THEN (IF N(c) = 0 THEN 0 ELSE 1)
          ELSE IF st.pos < N(c) THEN st.pos + 1 ELSE 0)
    ELSE (IF st.pos = 0 THEN N(c) ELSE st.pos - 1)

\* Is `res` an answer the contract allows for `op` (probe q) in state st ?
Allowed(c, st, op, q, res) ==
    /\ res \in 0..N(c)
    /\ CASE op \in AbsOps   -> res = AbsAnswer(c, op, q)
         [] op \in RelOps   -> st.zone \/ res = RelAnswer(c, st, op)
         [] op = "current"  -> st.zone \/ st.pos = 0 \/ res = st.pos
         [] op = "reset"    -> res = 0

\* The abstract state after `op` answered `res`.
After(st, op, res) ==
    CASE op \in AbsOps  -> (IF res # 0 THEN [pos |-> res, zone |-> FALSE]
                            ELSE [pos |-> st.pos, zone |-> TRUE])
      [] op \in RelOps  -> (IF res # 0 THEN [pos |-> res, zone |-> st.zone]
                            ELSE [pos |-> st.pos, zone |-> TRUE])
      [] op = "current" -> st
      [] op = "reset"   -> Fresh

\* A full scan with next (resp. prev) from a fresh or reset cursor.
ScanAnswer(c, dir) == IF dir = "fwd" THEN Upto(1, N(c)) ELSE Downto(1, N(c))
=============================================================================

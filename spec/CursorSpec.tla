----------------------------- MODULE CursorSpec -----------------------------
(***************************************************************************)
(* Level A contract of a grenad cursor (properties C02, C03).              *)
(*                                                                         *)
(* The abstract state of a cursor is                                       *)
(*    pos  : index (1..n) of the last entry an operation returned, 0 if    *)
(*           the cursor was never positioned or has been reset             *)
(*    zone : "no"   -- the last operation returned an entry (or the cursor *)
(*                     is fresh / reset): everything is specified          *)
(*           "rel"  -- the last operation was a relative move that         *)
(*                     returned None: the next relative move is the one    *)
(*                     the statement leaves unspecified; as soon as a      *)
(*                     relative move returns an entry the position is      *)
(*                     that entry and everything is specified again        *)
(*           "seek" -- an absolute operation returned None (a seek beyond  *)
(*                     the keys, or any absolute move on an empty file)    *)
(*                     and no absolute operation has returned an entry     *)
(*                     since: relative moves stay unspecified until then.  *)
(*                     (At the pinned commit a seek that finds no block    *)
(*                     leaves the index cursors past the end while the     *)
(*                     data cursor keeps its place, so the SECOND relative *)
(*                     move after it may end the scan prematurely; reading *)
(*                     "issued after an operation returned None" as        *)
(*                     covering that whole stretch is the only reading     *)
(*                     under which the code the statement was written      *)
(*                     against is correct, see DESIGN.md section 5 C03.)   *)
(* Every result is a function of (content, state, operation) except where  *)
(* unspecified, where next / prev / current may answer any entry of the    *)
(* file or None.  Results are entry indices, 0 = None.                     *)
(***************************************************************************)
EXTENDS Store

AbsOps == {"first", "last", "ge", "le", "eq"}
RelOps == {"next", "prev"}
Ops == AbsOps \cup RelOps \cup {"current", "reset"}

Fresh == [pos |-> 0, zone |-> "no"]
Unspec(st) == st.zone # "no"

AbsAnswer(c, op, q) ==
    CASE op = "first" -> (IF N(c) = 0 THEN 0 ELSE 1)
      [] op = "last"  -> N(c)
      [] op = "ge"    -> Ceil(c, q)
      [] op = "le"    -> Floor(c, q)
      [] op = "eq"    -> Exact(c, q)

RelAnswer(c, st, op) ==
    IF op = "next"
    THEN (IF st.pos = 0 THEN (IF N(c) = 0 THEN 0 ELSE 1)
          ELSE IF st.pos < N(c) THEN st.pos + 1 ELSE 0)
    ELSE (IF st.pos = 0 THEN N(c) ELSE st.pos - 1)

\* Is `res` an answer the contract allows for `op` (probe q) in state st ?
Allowed(c, st, op, q, res) ==
    /\ res \in 0..N(c)
    /\ CASE op \in AbsOps   -> res = AbsAnswer(c, op, q)
         [] op \in RelOps   -> Unspec(st) \/ res = RelAnswer(c, st, op)
         [] op = "current"  -> Unspec(st) \/ st.pos = 0 \/ res = st.pos
         [] op = "reset"    -> res = 0

\* The abstract state after `op` answered `res`.
After(st, op, res) ==
    CASE op \in AbsOps  -> (IF res # 0 THEN [pos |-> res, zone |-> "no"]
                            ELSE [pos |-> st.pos, zone |-> "seek"])
      [] op \in RelOps  -> (IF res # 0 THEN [pos |-> res, zone |-> IF st.zone = "seek" THEN "seek" ELSE "no"]
                            ELSE [pos |-> st.pos, zone |-> IF st.zone = "seek" THEN "seek" ELSE "rel"])
      [] op = "current" -> st
      [] op = "reset"   -> Fresh

(***************************************************************************)
(* Histories that contain a failed call (a one-off failure of the source). *)
(* "first, last and seeks are unaffected by anything done before them":    *)
(* a call that returned Err is something done before them.  ErrRes is the  *)
(* result "the call returned Err"; `fired` says the injected failure was   *)
(* delivered during this very call.  What the hit call returns is C12's    *)
(* business and is not judged here.  Afterwards the cursor is in zone      *)
(* "err": relative moves and `current` are left open exactly as after a    *)
(* None (the statement fixes the logical position by "the last operation   *)
(* that returned an entry", and a failed call may have moved part of the   *)
(* machinery), a further Err is tolerated, but an absolute move that       *)
(* returns Ok must return the answer the content determines, and it ends   *)
(* the zone when that answer is an entry; reset makes the cursor fresh.    *)
(***************************************************************************)
ErrRes == -2

AllowedF(c, st, op, q, res, fired) ==
    IF fired THEN res = ErrRes \/ res \in 0..N(c)
    ELSE IF st.zone = "err"
    THEN \/ res = ErrRes
         \/ /\ res \in 0..N(c)
            /\ op \in AbsOps => res = AbsAnswer(c, op, q)
            /\ op = "reset" => res = 0
    ELSE Allowed(c, st, op, q, res)

AfterF(st, op, res, fired) ==
    IF fired \/ res = ErrRes THEN [pos |-> st.pos, zone |-> "err"]
    ELSE IF st.zone = "err"
    THEN (IF op \in AbsOps /\ res # 0 THEN [pos |-> res, zone |-> "no"]
          ELSE IF op = "reset" THEN Fresh
          ELSE st)
    ELSE After(st, op, res)

\* A full scan with next (resp. prev) from a fresh or reset cursor.
ScanAnswer(c, dir) == IF dir = "fwd" THEN Upto(1, N(c)) ELSE Downto(1, N(c))
=============================================================================

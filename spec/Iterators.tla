----------------------------- MODULE Iterators -----------------------------
(***************************************************************************)
(* Level A contract of the range and prefix iterators (C04, C05): the      *)
(* sequence yielded up to the first None is exactly the filter of the      *)
(* content by the bounds (resp. the prefix), ascending for the forward     *)
(* iterators and descending for the reverse ones.  Keys and bounds are     *)
(* dictionary ranks; the prefix relation is evaluated on the bytes.        *)
(***************************************************************************)
EXTENDS Store, Bytes

\* a bound is [t |-> "U" | "I" | "E", q |-> rank]
LoOk(lo, k) == CASE lo.t = "U" -> TRUE [] lo.t = "I" -> k >= lo.q [] lo.t = "E" -> k > lo.q
HiOk(hi, k) == CASE hi.t = "U" -> TRUE [] hi.t = "I" -> k <= hi.q [] hi.t = "E" -> k < hi.q

\* ascending sequence of the members of a set of indices
RECURSIVE SeqOfFrom(_, _, _)
SeqOfFrom(S, i, n) == IF i > n THEN <<>> ELSE (IF i \in S THEN <<i>> ELSE <<>>) \o SeqOfFrom(S, i + 1, n)
Rev(s) == [i \in 1..Len(s) |-> s[Len(s) - i + 1]]

\* the statement itself: filter of the content
InRangeDef(c, lo, hi) == SeqOfFrom({i \in 1..N(c) : LoOk(lo, KeyAt(c, i)) /\ HiOk(hi, KeyAt(c, i))}, 1, N(c))

\* the same as an index interval (ranks are integers: key > q  <=>  key >= q + 1)
FirstIn(c, lo) ==
    LET r == CASE lo.t = "U" -> 1
               [] lo.t = "I" -> LowerBound(c, lo.q, 1, N(c))
               [] lo.t = "E" -> LowerBound(c, lo.q + 1, 1, N(c))
    IN r
LastIn(c, hi) ==
    CASE hi.t = "U" -> N(c)
      [] hi.t = "I" -> LowerBound(c, hi.q + 1, 1, N(c)) - 1
      [] hi.t = "E" -> LowerBound(c, hi.q, 1, N(c)) - 1
InRange(c, lo, hi) == Upto(FirstIn(c, lo), LastIn(c, hi))

\* indices of the entries whose key starts with the byte string p
WithPrefix(c, dict, p) ==
    SeqOfFrom({i \in 1..N(c) : IsPrefix(p, dict[KeyAt(c, i)])}, 1, N(c))

IterAnswer(c, dict, kind, lo, hi, p) ==
    CASE kind = "range"     -> InRange(c, lo, hi)
      [] kind = "revrange"  -> Rev(InRange(c, lo, hi))
      [] kind = "prefix"    -> WithPrefix(c, dict, dict[p])
      [] kind = "revprefix" -> Rev(WithPrefix(c, dict, dict[p]))
=============================================================================

SPECIFICATION MSpec
CONSTANTS
  NSrc = 4
  Keys = {1, 2, 3, 4}
  TieBySourceIndex = TRUE
INVARIANTS OutPrefixOk DoneComplete
CHECK_DEADLOCK FALSE

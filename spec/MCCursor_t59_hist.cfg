SPECIFICATION CSpec
CONSTANTS
  Blocks <- TBlocks
  RootOff <- TRoot
  L <- TLevels
  DataKeys <- TDataKeys
  Probes <- TProbes
  SyncOffsetOnReload = TRUE
INVARIANTS Refines LoadBound EmitHist
VIEW View
CHECK_DEADLOCK FALSE

SPECIFICATION WSpec
CONSTANTS
  L = 2
  K = 1
  BlockSize = 0
  MinBlock = 40
  KeyLen <- MCKeyLen
  ValLens = {0, 30}
  MaxInserts = 5
  SortedOnly = FALSE
  Keys = {1,2,3,4}
  LevelsFitU8 = TRUE
  Consecutive = FALSE
  MinFinish = 0
INVARIANTS FinishedWellFormed SortedNeverPanics FinishedAscending
PROPERTY AppendOnly
CHECK_DEADLOCK FALSE

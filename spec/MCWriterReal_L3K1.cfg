SPECIFICATION WSpec
CONSTANTS
  L = 3
  K = 1
  BlockSize = 0
  MinBlock = 1024
  KeyLen <- RKeyLen
  ValLens = {0, 400, 1100}
  MaxInserts = 60
  SortedOnly = TRUE
  Keys = {1,2,3,4,5,6,7,8,9,10,11,12,13,14,15,16,17,18,19,20,21,22,23,24,25,26,27,28,29,30,31,32,33,34,35,36,37,38,39,40,41,42,43,44,45,46,47,48,49,50,51,52,53,54,55,56,57,58,59,60}
  LevelsFitU8 = TRUE
  Consecutive = TRUE
  MinFinish = 30
INVARIANTS FinishedWellFormed SortedNeverPanics EmitSeq
CHECK_DEADLOCK FALSE

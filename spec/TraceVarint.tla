---------------------------- MODULE TraceVarint ----------------------------
(***************************************************************************)
(* C14 conformance.  RT: the real encoder was run on a length (given as    *)
(* its 7-bit groups), the real decoder on the produced bytes followed by   *)
(* `trail`; TLC checks the C14 predicate on what they did (and, when       *)
(* CheckBytes, that the bytes are exactly Varint!Enc, i.e. LEB128).        *)
(* Sweep: the harness evaluated the same predicate on one 2^24-sized chunk *)
(* of the 2^32 domain; all 256 chunks must be present, each without        *)
(* failures.                                                               *)
(***************************************************************************)
EXTENDS Integers, Sequences, TLC, Json, IOUtils, Varint
CONSTANT CheckBytes
Rec == ndJsonDeserialize(IOEnv.TRACE)
VARIABLES l, chunks
vars == <<l, chunks>>
TraceInit == l = 1 /\ chunks = {}
IsEvent(e) == l <= Len(Rec) /\ Rec[l].ev = e /\ l' = l + 1
EvReset == IsEvent("Reset") /\ chunks' = {}
EvRT ==
    /\ IsEvent("RT")
    /\ LET e == Rec[l] IN
       /\ IsGroups(e.g)
       /\ Len(e.bytes) \in 1..5                     \* one to five bytes
       /\ e.consumed = Len(e.bytes)                 \* consuming exactly those bytes
       /\ e.dg = e.g                                \* decoding back to the same length
       /\ CheckBytes => (e.bytes = Enc(e.g) /\ RoundTrip(e.g, e.trail))
    /\ UNCHANGED chunks
EvSweep ==
    /\ IsEvent("Sweep")
    /\ LET e == Rec[l] IN
       /\ e.chunk \in 0..255 /\ e.chunk \notin chunks
       /\ e.n = 16777216
       /\ e.failures = 0
       /\ chunks' = chunks \cup {e.chunk}
EvSweepEnd == IsEvent("SweepEnd") /\ chunks = 0..255 /\ UNCHANGED chunks
TraceNext == EvReset \/ EvRT \/ EvSweep \/ EvSweepEnd
TraceSpec == TraceInit /\ [][TraceNext]_vars
TraceAccepted ==
    LET d == TLCGet("stats").diameter IN
    IF d - 1 = Len(Rec) THEN TRUE
    ELSE /\ PrintT(<<"REJECTED-AT-LINE", d, Rec[d].ev>>) /\ FALSE
=============================================================================

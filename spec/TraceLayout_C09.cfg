SPECIFICATION TraceSpec
POSTCONDITION TraceAccepted
CHECK_DEADLOCK FALSE
CONSTANTS
  CheckFormat = TRUE
  CheckCut = FALSE
  CheckLower = FALSE
  CheckSorted = FALSE

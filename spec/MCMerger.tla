----------------------------- MODULE MCMerger -----------------------------
EXTENDS Merger
\* non-vacuity of Progress: a merger with a step that works on the heap without advancing any source
Peek == phase = "run" /\ heap # {} /\ calls # <<>> /\ calls' = <<>> /\ UNCHANGED <<srcs, head, heap, out, phase>>
MBadLive == MInit /\ [][MNext \/ Peek]_mvars /\ WF_mvars(Seed \/ NextOut \/ Finish)
=============================================================================

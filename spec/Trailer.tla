------------------------------ MODULE Trailer ------------------------------
(***************************************************************************)
(* C13 / C10.  Part 1 (contract): which byte strings end in a valid        *)
(* trailer, and what such a trailer says.  Part 2 (Level B): the seek /    *)
(* read sequence of Metadata::read_from as a small state machine over an   *)
(* abstract byte string, checked against part 1 by MCTrailer for every     *)
(* length 0..30, every magic class and every codec id class.               *)
(***************************************************************************)
EXTENDS Integers, Sequences

MagicV1 == <<76, 77, 50, 118>>        \* 0x76324D4C little-endian
MagicV2 == <<196, 212, 35, 103>>      \* 0x6723D4C4 little-endian
KnownCodec(c) == c \in 0..5

\* `tail` holds the last Len(tail) bytes of a string of `size` bytes, Len(tail) = min(size, >= 22)
Last(tail, n) == SubSeq(tail, Len(tail) - n + 1, Len(tail))
VersionOf(tail, size) ==
    IF size < 4 THEN 0
    ELSE IF Last(tail, 4) = MagicV1 THEN 1
    ELSE IF Last(tail, 4) = MagicV2 THEN 2 ELSE 0
RecordLen(ver) == IF ver = 1 THEN 21 ELSE 22
\* the codec id sits 8 bytes into the metadata record of either version
CodecByte(tail, ver) == tail[Len(tail) - RecordLen(ver) + 9]

ValidTrailer(tail, size) ==
    LET ver == VersionOf(tail, size) IN
    /\ ver # 0
    /\ size >= RecordLen(ver)
    /\ KnownCodec(CodecByte(tail, ver))

-----------------------------------------------------------------------------
(* Part 2: Metadata::read_from as coded *)
CONSTANTS MaxSize
VARIABLES size, magic, codec, pc, result
tvars == <<size, magic, codec, pc, result>>

TInit ==
    /\ size \in 0..MaxSize
    /\ magic \in {"v1", "v2", "other"}
    /\ codec \in 0..7            \* 6 and 7 stand for every unknown id
    /\ pc = "seek_magic" /\ result = "running"

\* reader.seek(SeekFrom::End(-4)): an error (not a panic) when it would go before the start
SeekMagic ==
    /\ pc = "seek_magic"
    /\ IF size < 4 THEN pc' = "done" /\ result' = "err_io"
       ELSE pc' = "read_magic" /\ UNCHANGED result
    /\ UNCHANGED <<size, magic, codec>>
ReadMagic ==
    /\ pc = "read_magic"
    /\ IF magic = "other" THEN pc' = "done" /\ result' = "err_version"
       ELSE pc' = "seek_meta" /\ UNCHANGED result
    /\ UNCHANGED <<size, magic, codec>>
\* reader.seek(SeekFrom::End(-(17|18) - 4))
SeekMeta ==
    /\ pc = "seek_meta"
    /\ LET need == IF magic = "v1" THEN 21 ELSE 22 IN
       IF size < need THEN pc' = "done" /\ result' = "err_io"
       ELSE pc' = "read_meta" /\ UNCHANGED result
    /\ UNCHANGED <<size, magic, codec>>
\* read u64, u8 (codec id, validated), u64 [, u8]
ReadMeta ==
    /\ pc = "read_meta"
    /\ pc' = "done"
    /\ result' = IF KnownCodec(codec) THEN "ok" ELSE "err_codec"
    /\ UNCHANGED <<size, magic, codec>>
TNext == SeekMagic \/ ReadMagic \/ SeekMeta \/ ReadMeta \/ (pc = "done" /\ UNCHANGED tvars)
TSpec == TInit /\ [][TNext]_tvars

\* the abstract string the model stands for, as a tail for the contract
AbstractTail ==
    LET body == [i \in 1..(IF size >= 4 THEN size - 4 ELSE size) |-> 0]
        m == IF magic = "v1" THEN MagicV1 ELSE IF magic = "v2" THEN MagicV2 ELSE <<1, 2, 3, 4>>
        whole == IF size >= 4 THEN body \o m ELSE body
        ver == IF magic = "v1" THEN 1 ELSE 2
        pos == Len(whole) - RecordLen(ver) + 9 IN
    IF size >= 4 /\ magic # "other" /\ pos >= 1 /\ pos <= Len(whole) - 4
    THEN [whole EXCEPT ![pos] = codec] ELSE whole

OpensIffValid == pc = "done" => ((result = "ok") <=> ValidTrailer(AbstractTail, size))
NeverPanics == result # "panic"
=============================================================================

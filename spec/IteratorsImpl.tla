--------------------------- MODULE IteratorsImpl ---------------------------
(***************************************************************************)
(* Level B: RangeIter, RevRangeIter, PrefixIter and RevPrefixIter as they  *)
(* are coded -- a `move_on_start` flag, the seek on the first call (with   *)
(* the extra step when an exclusive bound is hit exactly), advance_key +   *)
(* floor seek + step back (falling back on current()) for the reverse      *)
(* prefix iterator, then next / prev until the other bound fails -- on top *)
(* of a flat cursor that behaves like ReaderCursor does where the          *)
(* iterators use it (including what current() answers after a floor seek   *)
(* returned None: the first entry of the file).                            *)
(* MCIter checks, for every content over a small universe of byte strings  *)
(* (empty string, 0x00 / 0xFF bytes, prefix chains) and every query, that  *)
(* the yielded sequence is the one of the Level-A contract (C04, C05).     *)
(***************************************************************************)
EXTENDS Integers, Sequences, FiniteSets, Bytes

\* content: strictly ascending sequence of byte strings
N(c) == Len(c)
CeilS(c, q) == LET S == {i \in 1..N(c) : Le(q, c[i])} IN IF S = {} THEN 0 ELSE CHOOSE i \in S : \A j \in S : i <= j

\* the flat cursor: position 0 (unset), 1..n, n+1 (past the end); moves answer [at, r]
FFirst(c) == IF N(c) = 0 THEN [at |-> 0, r |-> 0] ELSE [at |-> 1, r |-> 1]
FLast(c) == IF N(c) = 0 THEN [at |-> 0, r |-> 0] ELSE [at |-> N(c), r |-> N(c)]
FNext(c, at) == IF at = 0 THEN FFirst(c)
                ELSE IF at < N(c) THEN [at |-> at + 1, r |-> at + 1]
                ELSE [at |-> N(c) + 1, r |-> 0]
FPrev(c, at) == IF at = 0 THEN FLast(c)
                ELSE IF at >= 2 /\ at <= N(c) THEN [at |-> at - 1, r |-> at - 1]
                ELSE [at |-> at, r |-> 0]                  \* on the first entry: None, no move
FGe(c, at, q) == LET i == CeilS(c, q) IN IF i # 0 THEN [at |-> i, r |-> i] ELSE [at |-> at, r |-> 0]
FLe(c, at, q) ==
    LET g == FGe(c, at, q) IN
    IF g.r # 0 /\ c[g.r] = q THEN g
    ELSE IF g.r # 0 THEN FPrev(c, g.at)
    ELSE LET l == FLast(c) IN IF l.r # 0 /\ Le(c[l.r], q) THEN l ELSE [at |-> l.at, r |-> 0]
FCurrent(c, at) == IF at >= 1 /\ at <= N(c) THEN at ELSE 0

\* bounds: [t |-> "U" | "I" | "E", q |-> byte string]
EndContains(hi, k) == CASE hi.t = "U" -> TRUE [] hi.t = "I" -> Le(k, hi.q) [] hi.t = "E" -> Lt(k, hi.q)
StartContains(lo, k) == CASE lo.t = "U" -> TRUE [] lo.t = "I" -> Le(lo.q, k) [] lo.t = "E" -> Lt(lo.q, k)

\* yield while `keep` holds, stepping with next (fwd) or prev
RECURSIVE Drain(_, _, _, _, _)
Drain(c, m, fwd, keepHi, bound) ==       \* m = [at, r] of the entry just reached
    IF m.r = 0 THEN <<>>
    ELSE IF ~(IF keepHi THEN EndContains(bound, c[m.r]) ELSE StartContains(bound, c[m.r])) THEN <<>>
    ELSE <<m.r>> \o Drain(c, IF fwd THEN FNext(c, m.at) ELSE FPrev(c, m.at), fwd, keepHi, bound)

RangeOut(c, lo, hi) ==
    LET start == CASE lo.t = "U" -> FFirst(c)
                   [] lo.t = "I" -> FGe(c, 0, lo.q)
                   [] lo.t = "E" -> LET g == FGe(c, 0, lo.q) IN
                                    IF g.r # 0 /\ c[g.r] = lo.q THEN FNext(c, g.at) ELSE g
    IN Drain(c, start, TRUE, TRUE, hi)
RevRangeOut(c, lo, hi) ==
    LET start == CASE hi.t = "U" -> FLast(c)
                   [] hi.t = "I" -> FLe(c, 0, hi.q)
                   [] hi.t = "E" -> LET g == FLe(c, 0, hi.q) IN
                                    IF g.r # 0 /\ c[g.r] = hi.q THEN FPrev(c, g.at) ELSE g
    IN Drain(c, start, FALSE, FALSE, lo)

RECURSIVE DrainPrefix(_, _, _, _)
DrainPrefix(c, m, fwd, p) ==
    IF m.r = 0 \/ ~IsPrefix(p, c[m.r]) THEN <<>>
    ELSE <<m.r>> \o DrainPrefix(c, IF fwd THEN FNext(c, m.at) ELSE FPrev(c, m.at), fwd, p)
PrefixOut(c, p) == DrainPrefix(c, FGe(c, 0, p), TRUE, p)
\* move_on_last_prefix
RevPrefixOut(c, p) ==
    LET np == Successor(p)
        start == IF np = NoSucc THEN FLast(c)
                 ELSE LET l == FLe(c, 0, np) IN
                      IF l.r # 0 /\ c[l.r] = np THEN FPrev(c, l.at)
                      ELSE [at |-> l.at, r |-> FCurrent(c, l.at)]
    IN DrainPrefix(c, start, FALSE, p)

\* Level A: the filters
RECURSIVE SeqOfFrom(_, _, _)
SeqOfFrom(S, i, n) == IF i > n THEN <<>> ELSE (IF i \in S THEN <<i>> ELSE <<>>) \o SeqOfFrom(S, i + 1, n)
Rev(s) == [i \in 1..Len(s) |-> s[Len(s) - i + 1]]
InRangeA(c, lo, hi) == SeqOfFrom({i \in 1..N(c) : StartContains(lo, c[i]) /\ EndContains(hi, c[i])}, 1, N(c))
WithPrefixA(c, p) == SeqOfFrom({i \in 1..N(c) : IsPrefix(p, c[i])}, 1, N(c))
=============================================================================

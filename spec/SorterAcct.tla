----------------------------- MODULE SorterAcct -----------------------------
(***************************************************************************)
(* Level B, pure part: the byte-exact buffer accounting of grenad's Sorter *)
(* as functions of a configuration record                                  *)
(*     c = [t, init, realloc, maxc, bycap]                                 *)
(* and an accounting state a = [cap, elen, nb, nchunks].  Used by the      *)
(* model Sorter.tla (TLC explores it) and by TraceSorterB (the accounting  *)
(* the real sorter reports through hook H2 is compared with it, step by    *)
(* step; a difference is reported as drift, never as a violation).         *)
(***************************************************************************)
EXTENDS Integers

Round16(n) == ((n + 15) \div 16) * 16
Remaining(cp, e, n) == cp - e - 16 * n
Fits(cp, e, n, sz) == Remaining(cp, e, n) >= 16 + sz /\ (cp \div 16) - n >= 1
\* Entries::insert: double until it fits (no threshold test inside)
RECURSIVE GrowTo(_, _, _, _)
GrowTo(cp, e, n, sz) == IF Fits(cp, e, n, sz) THEN cp ELSE GrowTo(Round16(2 * cp), e, n, sz)

AcctInit(c) == [cap |-> Round16(IF c.realloc THEN c.init ELSE c.t), elen |-> 0, nb |-> 0, nchunks |-> 0]
Exceeded(c, a) == IF c.bycap THEN a.cap >= c.t ELSE a.elen + 16 * a.nb >= c.t
Stores(c, a, sz) == Fits(a.cap, a.elen, a.nb, sz) \/ (~Exceeded(c, a) /\ c.realloc)

\* Sorter::insert on the accounting: [a |-> new state, spilled, merged, peak]
AcctInsert(c, a, sz) ==
    IF Stores(c, a, sz)
    THEN [a |-> [a EXCEPT !.cap = GrowTo(a.cap, a.elen, a.nb, sz), !.elen = a.elen + sz, !.nb = a.nb + 1],
          spilled |-> FALSE, merged |-> FALSE, peak |-> a.nchunks]
    ELSE LET n1 == a.nchunks + 1
             merged == n1 >= c.maxc IN
         [a |-> [cap |-> GrowTo(a.cap, 0, 0, sz), elen |-> sz, nb |-> 1, nchunks |-> IF merged THEN 1 ELSE n1],
          spilled |-> TRUE, merged |-> merged, peak |-> IF merged THEN n1 + 1 ELSE n1]
=============================================================================

----------------------------- MODULE TraceAlloc -----------------------------
EXTENDS Integers, Sequences, TLC, Json, IOUtils, Alloc
Rec == ndJsonDeserialize(IOEnv.TRACE)
VARIABLE l
IsEvent(e) == l <= Len(Rec) /\ Rec[l].ev = e /\ l' = l + 1
TraceInit == l = 1
EvReset == IsEvent("Reset")
EvSCfg == IsEvent("SCfg")
EvAcct == IsEvent("Acct") /\ BookkeepingOk(Rec[l])
EvARun == IsEvent("ARun") /\ NoOverflow(Rec[l])
EvSummary == IsEvent("AllocSummary") /\ ProtocolOk(Rec[l])
EvResume == IsEvent("Resume") /\ LiveValuesOk(Rec[l])
TraceNext == EvReset \/ EvSCfg \/ EvAcct \/ EvARun \/ EvSummary \/ EvResume
TraceSpec == TraceInit /\ [][TraceNext]_l
TraceAccepted ==
    LET d == TLCGet("stats").diameter IN
    IF d - 1 = Len(Rec) THEN TRUE
    ELSE /\ PrintT(<<"REJECTED-AT-LINE", d, Rec[d].ev>>) /\ FALSE
=============================================================================

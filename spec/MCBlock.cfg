SPECIFICATION BSpec
CONSTANTS
  MaxN = 9
  MaxK = 10
INVARIANTS AnswersOk PositionOk
CHECK_DEADLOCK FALSE

------------------------------- MODULE Bytes -------------------------------
(***************************************************************************)
(* Byte strings as sequences over 0..255 and their lexicographic order --  *)
(* the order grenad uses for keys (Rust's Ord for [u8]).                    *)
(***************************************************************************)
EXTENDS Integers, Sequences

Byte == 0..255

\* Reference definition: walk both strings until they differ.
RECURSIVE CmpFrom(_, _, _)
CmpFrom(a, b, i) ==
    IF i > Len(a) THEN (IF i > Len(b) THEN 0 ELSE -1)
    ELSE IF i > Len(b) THEN 1
    ELSE IF a[i] < b[i] THEN -1
    ELSE IF a[i] > b[i] THEN 1
    ELSE CmpFrom(a, b, i + 1)
CmpRef(a, b) == CmpFrom(a, b, 1)

\* Fast form used on real traces (keys of up to 2^21 bytes): bisect for the first differing
\* position with native sub-sequence equality.  MCBytes checks Cmp = CmpRef exhaustively.
RECURSIVE FirstDiffIn(_, _, _, _)
FirstDiffIn(a, b, lo, hi) ==      \* precondition: a and b differ somewhere in lo..hi
    IF lo = hi THEN lo
    ELSE LET mid == (lo + hi) \div 2 IN
         IF SubSeq(a, lo, mid) = SubSeq(b, lo, mid) THEN FirstDiffIn(a, b, mid + 1, hi)
         ELSE FirstDiffIn(a, b, lo, mid)
FirstDiff(a, b) ==                \* 0 if one is a prefix of the other
    LET m == IF Len(a) <= Len(b) THEN Len(a) ELSE Len(b) IN
    IF m = 0 \/ SubSeq(a, 1, m) = SubSeq(b, 1, m) THEN 0 ELSE FirstDiffIn(a, b, 1, m)

\* -1 / 0 / 1 : a before / equal to / after b
Cmp(a, b) ==
    LET d == FirstDiff(a, b) IN
    IF d = 0 THEN (IF Len(a) < Len(b) THEN -1 ELSE IF Len(a) > Len(b) THEN 1 ELSE 0)
    ELSE IF a[d] < b[d] THEN -1 ELSE 1
Lt(a, b) == Cmp(a, b) = -1
Le(a, b) == Cmp(a, b) # 1

\* Declarative definition of the same order (used by MCBytes to validate Cmp).
LtDef(a, b) ==
    \E i \in 1..(Len(a) + 1) :
        /\ i <= Len(b)
        /\ \A j \in 1..(i - 1) : a[j] = b[j]
        /\ (i = Len(a) + 1 \/ a[i] < b[i])

IsPrefix(p, s) == Len(p) <= Len(s) /\ SubSeq(s, 1, Len(p)) = p
IsPrefixDef(p, s) == Len(p) <= Len(s) /\ \A i \in 1..Len(p) : p[i] = s[i]

\* A sequence of byte strings in strictly ascending order.
StrictlyAscending(ss) == \A i \in 1..(Len(ss) - 1) : Lt(ss[i], ss[i + 1])

(***************************************************************************)
(* Successor(p): the smallest byte string that is greater than every       *)
(* string having prefix p -- drop the trailing 0xFF bytes, increment the   *)
(* last remaining byte.  It does not exist (<<-1>>) when p is empty or all  *)
(* 0xFF: then every string >= p has prefix p ... or p is empty.             *)
(***************************************************************************)
NoSucc == <<-1>>
RECURSIVE StripFF(_)
StripFF(p) == IF Len(p) > 0 /\ p[Len(p)] = 255 THEN StripFF(SubSeq(p, 1, Len(p) - 1)) ELSE p
Successor(p) ==
    LET s == StripFF(p) IN
    IF Len(s) = 0 THEN NoSucc
    ELSE [s EXCEPT ![Len(s)] = s[Len(s)] + 1]
=============================================================================

----------------------------- MODULE CursorImpl -----------------------------
(***************************************************************************)
(* Level B: grenad's ReaderCursor as it is coded -- one in-block cursor    *)
(* per index level with the offset *recorded* next to it, plus the data    *)
(* block cursor -- transcribed function by function:                       *)
(*   BlockCursor::{move_on_first,last,next,prev,key_lower..,key_greater..} *)
(*   IndexBlockCursor::{initial_index_blocks, iter_index_blocks,           *)
(*                      recursive_index_block}                             *)
(*   ReaderCursor::{move_on_first,last,next,prev,ge,le,eq,current,reset}   *)
(* over a block tree given as a constant (in model checking: the decoded   *)
(* tree of a real file written by the real writer).                        *)
(*                                                                         *)
(* MCCursor checks, on every reachable state and for every operation and   *)
(* probe, that the answer is one the Level-A contract CursorSpec allows    *)
(* (C02, C03) and that the operation loads at most 2 x (L + 2) blocks      *)
(* (C16).  SyncOffsetOnReload = FALSE is the code as found at the pinned   *)
(* commit (relative moves reload a level without updating the recorded     *)
(* offset); with it TLC must find the C03 counterexample.                  *)
(***************************************************************************)
EXTENDS Integers, Sequences, FiniteSets, TLC, CursorSpec

CONSTANTS
    Blocks,              \* block offset -> sequence of [k |-> key, v |-> child offset / entry index]
    RootOff,             \* offset of the root index block
    L,                   \* index levels: index blocks at depth 0..L, data blocks at depth L+1
    DataKeys,            \* the keys of the file in order (the Level-A content)
    Probes,              \* probe keys for the seeks
    SyncOffsetOnReload   \* TRUE: as repaired; FALSE: as found

Content == ListContent(DataKeys)

None == [some |-> FALSE, k |-> 0, v |-> 0]
Some(e) == [some |-> TRUE, k |-> e.k, v |-> e.v]

-----------------------------------------------------------------------------
(* BlockCursor: [b |-> block offset, at |-> 0 (unset) | 1..len | len+1 (past the end)] *)
BLen(c) == Len(Blocks[c.b])
FreshBlock(b) == [b |-> b, at |-> 0]
Cur(c) == IF c.at >= 1 /\ c.at <= BLen(c) THEN Some(Blocks[c.b][c.at]) ELSE None

BFirst(c) == LET d == [c EXCEPT !.at = 1] IN [c |-> d, r |-> Cur(d)]
\* move_on_last on an empty block leaves the position untouched and answers current()
BLast(c) == IF BLen(c) = 0 THEN [c |-> c, r |-> Cur(c)]
            ELSE LET d == [c EXCEPT !.at = BLen(c)] IN [c |-> d, r |-> Cur(d)]
BNext(c) ==
    IF c.at = 0 THEN BFirst(c)
    ELSE IF c.at <= BLen(c) THEN LET d == [c EXCEPT !.at = c.at + 1] IN [c |-> d, r |-> Cur(d)]
    ELSE [c |-> c, r |-> None]
\* on the first entry (and past the end) prev answers None and does not move
BPrev(c) ==
    IF c.at = 0 THEN BLast(c)
    ELSE IF c.at >= 2 /\ c.at <= BLen(c) THEN LET d == [c EXCEPT !.at = c.at - 1] IN [c |-> d, r |-> Cur(d)]
    ELSE [c |-> c, r |-> None]
\* largest entry with key <= q; unset when there is none
BLe(c, q) ==
    LET S == {i \in 1..BLen(c) : Blocks[c.b][i].k <= q} IN
    IF S = {} THEN [c |-> [c EXCEPT !.at = 0], r |-> None]
    ELSE LET i == CHOOSE x \in S : \A y \in S : y <= x
             d == [c EXCEPT !.at = i] IN [c |-> d, r |-> Cur(d)]
BGe(c, q) ==
    LET le == BLe(c, q) IN
    IF le.r.some /\ le.r.k = q THEN le
    ELSE IF le.r.some THEN BNext(le.c)
    ELSE BFirst(le.c)

\* the closures the index cursor is driven with
Mov(m, c, q) ==
    CASE m = "first" -> BFirst(c)
      [] m = "last"  -> BLast(c)
      [] m = "next"  -> BNext(c)
      [] m = "prev"  -> BPrev(c)
      [] m = "ge"    -> BGe(c, q)

-----------------------------------------------------------------------------
(* IndexBlockCursor: inner = [init |-> BOOLEAN, lv |-> sequence of [rec, c]] *)
NoInner == [init |-> FALSE, lv |-> <<>>]

\* initial_index_blocks: loads one block per level; records the CHILD's offset next to each
RECURSIVE InitFrom(_, _, _, _, _)
InitFrom(lvl, jump, acc, m, q) ==
    IF lvl > L + 1 THEN [inner |-> [init |-> TRUE, lv |-> acc], n |-> L + 1]
    ELSE LET mv == Mov(m, FreshBlock(jump), q) IN
         IF ~mv.r.some THEN [inner |-> NoInner, n |-> lvl]
         ELSE InitFrom(lvl + 1, mv.r.v, Append(acc, [rec |-> mv.r.v, c |-> mv.c]), m, q)

\* iter_index_blocks with inner = Some(..): walk from the root, reuse a level iff the recorded
\* offset is the wanted one; an early None leaves the lower levels untouched
RECURSIVE IterFrom(_, _, _, _, _, _)
IterFrom(lvl, jump, lv, m, q, n) ==
    IF lvl > L + 1 THEN [lv |-> lv, ok |-> TRUE, n |-> n]
    ELSE LET reload == lv[lvl].rec # jump
             c0 == IF reload THEN FreshBlock(jump) ELSE lv[lvl].c
             mv == Mov(m, c0, q)
             lv2 == [lv EXCEPT ![lvl] = [rec |-> jump, c |-> mv.c]]
             n2 == IF reload THEN n + 1 ELSE n IN
         IF ~mv.r.some THEN [lv |-> lv2, ok |-> FALSE, n |-> n2]
         ELSE IterFrom(lvl + 1, mv.r.v, lv2, m, q, n2)

\* IndexBlockCursor::{move_on_first, move_on_last, move_on_key_greater_than_or_equal_to}
IdxAbs(inner, m, q) ==
    IF inner.init
    THEN LET it == IterFrom(1, RootOff, inner.lv, m, q, 0) IN
         [inner |-> [init |-> TRUE, lv |-> it.lv],
          r |-> IF it.ok THEN Cur(it.lv[L + 1].c) ELSE None,
          n |-> it.n]
    ELSE LET ini == InitFrom(1, RootOff, <<>>, m, q) IN
         [inner |-> ini.inner,
          r |-> IF ini.inner.init THEN Cur(ini.inner.lv[L + 1].c) ELSE None,
          n |-> ini.n]

\* recursive_index_block: try the move on the last level; when it is exhausted ask the parent
\* level for the next block, load it and try again
RECURSIVE Climb(_, _, _, _)
Climb(lvl, lv, m, n) ==
    IF lvl = 0 THEN [lv |-> lv, r |-> None, n |-> n]
    ELSE LET mv == Mov(m, lv[lvl].c, 0)
             lv1 == [lv EXCEPT ![lvl].c = mv.c] IN
         IF mv.r.some THEN [lv |-> lv1, r |-> Cur(mv.c), n |-> n]
         ELSE LET up == Climb(lvl - 1, lv1, m, n) IN
              IF ~up.r.some THEN up
              ELSE LET mv2 == Mov(m, FreshBlock(up.r.v), 0) IN
                   [lv |-> [up.lv EXCEPT ![lvl] =
                               [rec |-> IF SyncOffsetOnReload THEN up.r.v ELSE up.lv[lvl].rec,
                                c |-> mv2.c]],
                    r |-> mv2.r, n |-> up.n + 1]

\* IndexBlockCursor::{move_on_next, move_on_prev}
IdxRel(inner, m) ==
    LET ini == IF inner.init THEN [inner |-> inner, n |-> 0] ELSE InitFrom(1, RootOff, <<>>, m, 0) IN
    IF ~ini.inner.init THEN [inner |-> ini.inner, r |-> None, n |-> ini.n]
    ELSE LET cl == Climb(L + 1, ini.inner.lv, m, ini.n) IN
         [inner |-> [init |-> TRUE, lv |-> cl.lv], r |-> cl.r, n |-> cl.n]

-----------------------------------------------------------------------------
(* ReaderCursor: [inner, has (current_cursor is Some), cur (data block cursor)] *)
NoCur == [b |-> RootOff, at |-> 0]
FreshCursor == [inner |-> NoInner, has |-> FALSE, cur |-> NoCur]

\* result of a public operation: new state, entry index answered (0 = None), blocks loaded
Res(s, r, n) == [s |-> s, res |-> IF r.some THEN r.v ELSE 0, n |-> n, key |-> r.k, some |-> r.some]

RFirstLast(s, m) ==
    LET ix == IdxAbs(s.inner, m, 0) IN
    IF ix.r.some
    THEN LET mv == Mov(m, FreshBlock(ix.r.v), 0) IN
         Res([inner |-> ix.inner, has |-> TRUE, cur |-> mv.c], mv.r, ix.n + 1)
    ELSE Res([inner |-> ix.inner, has |-> FALSE, cur |-> NoCur], None, ix.n)

RNextPrev(s, m) ==
    IF ~s.has THEN RFirstLast(s, IF m = "next" THEN "first" ELSE "last")
    ELSE LET mv == Mov(m, s.cur, 0) IN
         IF mv.r.some THEN Res([s EXCEPT !.cur = mv.c], mv.r, 0)
         ELSE LET ix == IdxRel(s.inner, m) IN
              IF ix.r.some
              THEN LET mv2 == Mov(IF m = "next" THEN "first" ELSE "last", FreshBlock(ix.r.v), 0) IN
                   Res([inner |-> ix.inner, has |-> TRUE, cur |-> mv2.c], mv2.r, ix.n + 1)
              ELSE Res([inner |-> ix.inner, has |-> TRUE, cur |-> mv.c], None, ix.n)

\* a seek that finds no block answers None and leaves the data cursor where it was
RGe(s, q) ==
    LET ix == IdxAbs(s.inner, "ge", q) IN
    IF ix.r.some
    THEN LET mv == BGe(FreshBlock(ix.r.v), q) IN
         Res([inner |-> ix.inner, has |-> TRUE, cur |-> mv.c], mv.r, ix.n + 1)
    ELSE Res([s EXCEPT !.inner = ix.inner], None, ix.n)

RLe(s, q) ==
    LET g == RGe(s, q) IN
    IF g.some /\ g.key = q THEN g
    ELSE IF g.some THEN LET p == RNextPrev(g.s, "prev") IN [p EXCEPT !.n = g.n + p.n]
    ELSE LET p == RFirstLast(g.s, "last") IN
         IF p.some /\ p.key <= q THEN [p EXCEPT !.n = g.n + p.n]
         ELSE [p EXCEPT !.n = g.n + p.n, !.res = 0, !.some = FALSE]

REq(s, q) ==
    LET g == RGe(s, q) IN
    IF g.some /\ g.key = q THEN g ELSE [g EXCEPT !.res = 0, !.some = FALSE]

RCurrent(s) == IF s.has THEN Res(s, Cur(s.cur), 0) ELSE Res(s, None, 0)

Apply(s, op, q) ==
    CASE op = "first"   -> RFirstLast(s, "first")
      [] op = "last"    -> RFirstLast(s, "last")
      [] op = "next"    -> RNextPrev(s, "next")
      [] op = "prev"    -> RNextPrev(s, "prev")
      [] op = "ge"      -> RGe(s, q)
      [] op = "le"      -> RLe(s, q)
      [] op = "eq"      -> REq(s, q)
      [] op = "current" -> RCurrent(s)
      [] op = "reset"   -> Res(FreshCursor, None, 0)

-----------------------------------------------------------------------------
VARIABLES
    impl,      \* the implementation-shaped cursor
    abs,       \* the Level-A abstract state it must refine
    ok,        \* the last answer was allowed by the contract
    loads,     \* blocks loaded by the last operation
    hist       \* the operations that led here (hidden from the fingerprint by the VIEW)
cvars == <<impl, abs, ok, loads, hist>>

CInit == impl = FreshCursor /\ abs = Fresh /\ ok = TRUE /\ loads = 0 /\ hist = <<>>

Step(op, q) ==
    LET a == Apply(impl, op, q) IN
    /\ impl' = a.s
    /\ ok' = Allowed(Content, abs, op, q, a.res)
    /\ abs' = After(abs, op, a.res)
    /\ loads' = a.n
    /\ hist' = Append(hist, <<op, q, a.res, a.n>>)

CNext ==
    \/ \E op \in {"first", "last", "next", "prev", "current", "reset"} : Step(op, 0)
    \/ \E op \in {"ge", "le", "eq"}, q \in Probes : Step(op, q)
CSpec == CInit /\ [][CNext]_cvars

View == <<impl, abs, ok, loads>>

\* C02 / C03: every answer is the one the contract determines
Refines == ok
\* C16
LoadBound == loads <= 2 * (L + 2)
\* test generation: one line per distinct state with the operations that reach it (always TRUE)
EmitHist == PrintT("HIST " \o ToString(hist))
=============================================================================

SPECIFICATION MBadLive
CONSTANTS
  NSrc = 2
  Keys = {1, 2}
  TieBySourceIndex = TRUE
PROPERTIES Progress
CHECK_DEADLOCK FALSE

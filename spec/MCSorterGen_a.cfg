SPECIFICATION SSpec
CONSTANTS
  T = 1700
  InitCap = 64
  Realloc = TRUE
  MaxChunks = 2
  Sizes = {0, 1, 16, 100, 200, 409, 1000, 3000}
  KeysU = {1}
  TrackContent = FALSE
  MaxInserts = 0
  ExceededUsesCapacity = TRUE
  GenLen = 60
INVARIANTS Bookkeeping LiveBound2 EmitSizes
CHECK_DEADLOCK FALSE

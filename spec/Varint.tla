------------------------------- MODULE Varint -------------------------------
(***************************************************************************)
(* C14: the 32-bit length framing.  A length n is represented by its five  *)
(* 7-bit groups g = <<g0, g1, g2, g3, g4>>, n = SUM gi * 128^i with        *)
(* gi \in 0..127 and g4 \in 0..15 (TLC integers are 32-bit; the group form *)
(* covers all of 0 .. 2^32-1).                                             *)
(*   EncLen / Enc : the encoder (LEB128: low group first, high bit = more) *)
(*   PackedLen / Dec : the decoder as grenad codes it (length detection on *)
(*   at most five bytes, then masked groups; the fifth byte is unmasked    *)
(*   and shifted by 28, i.e. only its low four bits survive in a u32).     *)
(* The contract of C14 is RoundTrip: decoding what was encoded -- also     *)
(* when more bytes follow, as inside a block -- returns the same groups    *)
(* and consumes exactly the bytes produced, of which there are 1..5.       *)
(***************************************************************************)
EXTENDS Integers, Sequences

Groups == {g \in [1..5 -> 0..127] : g[5] <= 15}
IsGroups(g) == Len(g) = 5 /\ (\A i \in 1..5 : g[i] \in 0..127) /\ g[5] <= 15

\* value of the groups, only for n < 2^31 (g[5] < 8)
ValueOf(g) == g[1] + 128 * g[2] + 16384 * g[3] + 2097152 * g[4] + 268435456 * g[5]
GroupsOf(n) == <<n % 128, (n \div 128) % 128, (n \div 16384) % 128, (n \div 2097152) % 128, n \div 268435456>>

\* number of bytes: position of the highest non-zero group (at least 1)
EncLen(g) == IF g[5] # 0 THEN 5 ELSE IF g[4] # 0 THEN 4 ELSE IF g[3] # 0 THEN 3 ELSE IF g[2] # 0 THEN 2 ELSE 1
Enc(g) == [i \in 1..EncLen(g) |-> IF i < EncLen(g) THEN g[i] + 128 ELSE g[i]]

\* grenad's varint_length_packed on the first min(5, len) bytes: 0 when every one of them
\* has its high bit set
PackedLen(bytes) ==
    LET m == IF Len(bytes) < 5 THEN Len(bytes) ELSE 5
        S == {i \in 1..m : bytes[i] < 128} IN
    IF S = {} THEN 0 ELSE CHOOSE i \in S : \A j \in S : i <= j
\* grenad's varint_decode32: groups of the decoded value
Dec(bytes) ==
    LET len == PackedLen(bytes) IN
    [i \in 1..5 |->
        IF i = 1 THEN bytes[1] % 128
        ELSE IF i <= len THEN (IF i = 5 THEN bytes[5] % 16 ELSE bytes[i] % 128)
        ELSE 0]

RoundTrip(g, trail) ==
    LET b == Enc(g) \o trail IN
    /\ Len(Enc(g)) \in 1..5
    /\ PackedLen(b) = Len(Enc(g))
    /\ Dec(b) = g
=============================================================================

SPECIFICATION SSpec
CONSTANTS
  T = 1000
  InitCap = 48
  Realloc = FALSE
  MaxChunks = 1
  Sizes = {0, 7, 33, 234, 235, 900, 984, 985, 2000}
  KeysU = {1}
  TrackContent = FALSE
  MaxInserts = 0
  ExceededUsesCapacity = TRUE
  GenLen = 60
INVARIANTS Bookkeeping LiveBound2 EmitSizes
CHECK_DEADLOCK FALSE

INIT Init
NEXT Next
CONSTANTS
  GV = {0, 1, 2, 63, 64, 126, 127}
  TopGV = {0, 1, 7, 8, 15}
INVARIANTS RT ValueAgrees LenBoundaries
CHECK_DEADLOCK FALSE

SPECIFICATION SSpec
CONSTANTS
  T = 4099
  InitCap = 32
  Realloc = TRUE
  MaxChunks = 3
  Sizes = {0, 3, 15, 16, 17, 1000, 1008, 4000, 9000}
  KeysU = {1}
  TrackContent = FALSE
  MaxInserts = 0
  ExceededUsesCapacity = TRUE
  GenLen = 60
INVARIANTS Bookkeeping LiveBound2 EmitSizes
CHECK_DEADLOCK FALSE

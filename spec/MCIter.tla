------------------------------- MODULE MCIter -------------------------------
EXTENDS IteratorsImpl, TLC
\* universe: the empty string, 0x00 / 0xFF bytes, prefix chains, and 0x01 / 0xFE neighbours
U == << <<>>, <<0>>, <<0, 0>>, <<0, 255>>, <<1>>, <<254>>, <<255>>, <<255, 0>>, <<255, 255>> >>
ProbeSet == {U[i] : i \in 1..Len(U)} \cup {<<0, 1>>, <<255, 255, 255>>, <<254, 255>>}
SubSeqOf(S) == SelectSeq(U, LAMBDA x : x \in S)
CONSTANT MaxContent
VARIABLES c, kind, a, b, ta, tb
Init ==
    /\ c \in {SubSeqOf(S) : S \in {T \in SUBSET {U[i] : i \in 1..Len(U)} : Cardinality(T) <= MaxContent}}
    /\ kind \in {"range", "prefix"}
    /\ a \in ProbeSet /\ b \in (IF kind = "range" THEN ProbeSet ELSE {<<>>})
    /\ ta \in (IF kind = "range" THEN {"U", "I", "E"} ELSE {"U"})
    /\ tb \in (IF kind = "range" THEN {"U", "I", "E"} ELSE {"U"})
Next == UNCHANGED <<c, kind, a, b, ta, tb>>
Lo == [t |-> ta, q |-> a]
Hi == [t |-> tb, q |-> b]
ContentAscending == StrictlyAscending(c)
RangeOk == kind = "range" =>
    /\ RangeOut(c, Lo, Hi) = InRangeA(c, Lo, Hi)
    /\ RevRangeOut(c, Lo, Hi) = Rev(InRangeA(c, Lo, Hi))
PrefixOk == kind = "prefix" =>
    /\ PrefixOut(c, a) = WithPrefixA(c, a)
    /\ RevPrefixOut(c, a) = Rev(WithPrefixA(c, a))
=============================================================================

SPECIFICATION MSpec
CONSTANTS
  NSrc = 3
  Keys = {1, 2, 3, 4}
INVARIANTS OutPrefixOk DoneComplete
CHECK_DEADLOCK FALSE

SPECIFICATION SSpec
CONSTANTS
  T = 64
  InitCap = 32
  Realloc = TRUE
  MaxChunks = 2
  Sizes = {0, 8, 40}
  KeysU = {1, 2, 3}
  TrackContent = TRUE
  MaxInserts = 6
  ExceededUsesCapacity = TRUE
  GenLen = 0
INVARIANTS Bookkeeping LiveBound2 OutputCorrect
CHECK_DEADLOCK FALSE

SPECIFICATION TSpec
CONSTANT MaxSize = 30
INVARIANTS OpensIffValid NeverPanics
CHECK_DEADLOCK FALSE

SPECIFICATION SSpec
CONSTANTS
  T = 1700
  InitCap = 64
  Realloc = TRUE
  MaxChunks = 2
  Sizes = {0, 100, 200, 409}
  KeysU = {1}
  TrackContent = FALSE
  MaxInserts = 0
  ExceededUsesCapacity = FALSE
  GenLen = 0
INVARIANTS Bookkeeping VolumeBound LiveBound2
CHECK_DEADLOCK FALSE

------------------------------- MODULE MergerContract -------------------------
(***************************************************************************)
(* C06.  Part 1: the contract of a k-way merge as pure operators over the  *)
(* sources (used by TraceMerger on recorded executions and as the          *)
(* correctness condition of part 2).  Part 2: an implementation-shaped     *)
(* model of MergerIter (binary heap ordered by (key, source index), pop    *)
(* all heads equal to the smallest key, merge once, advance, push back),   *)
(* checked by TLC against part 1 for every overlap pattern of small        *)
(* sources.                                                                *)
(*                                                                         *)
(* A source is a strictly ascending sequence of keys (integers).  The      *)
(* value of source i at position p is the token <<i, p>>.                  *)
(***************************************************************************)
EXTENDS Integers, Sequences, FiniteSets

AscendingSeq(s) == \A i \in 1..(Len(s) - 1) : s[i] < s[i + 1]

KeysOf(s) == {s[i] : i \in 1..Len(s)}
AllKeys(srcs) == UNION {KeysOf(srcs[i]) : i \in 1..Len(srcs)}

RECURSIVE SortedSeq(_)
SortedSeq(S) == IF S = {} THEN <<>>
                ELSE LET m == CHOOSE x \in S : \A y \in S : x <= y IN <<m>> \o SortedSeq(S \ {m})

\* position of key k in source s, 0 if absent
PosIn(s, k) == IF \E p \in 1..Len(s) : s[p] = k THEN CHOOSE p \in 1..Len(s) : s[p] = k ELSE 0

\* tokens of the values held for key k, ordered by the position at which sources were added
Holders(srcs, k) ==
    LET idx == [i \in 1..Len(srcs) |-> i]
        sel == SelectSeq(idx, LAMBDA i : PosIn(srcs[i], k) # 0) IN
    [x \in 1..Len(sel) |-> <<sel[x], PosIn(srcs[sel[x]], k)>>]

\* The value the merger must yield for key k under merge function mf:
\*   "concat" -- concatenation of all values (a lone value is returned unchanged)
\*   "first"  -- the first value (returned borrowed)
Expected(srcs, k, mf) ==
    LET h == Holders(srcs, k) IN IF mf = "first" THEN <<h[1]>> ELSE h

\* The calls the merge function may have received for an output key:
\* exactly one call with the holders in source order when several sources hold the key;
\* none or that one call when a single source holds it.
CallsOk(srcs, k, calls) ==
    LET h == Holders(srcs, k) IN
    /\ \A c \in 1..Len(calls) : calls[c].k = k /\ calls[c].vals = h
    /\ IF Len(h) >= 2 THEN Len(calls) = 1 ELSE Len(calls) <= 1
=============================================================================

SPECIFICATION WSpec
CONSTANTS
  L = 255
  K = 8
  BlockSize = 0
  MinBlock = 1024
  KeyLen <- MCKeyLen
  ValLens = {0}
  MaxInserts = 1
  SortedOnly = TRUE
  Keys = {1}
  LevelsFitU8 = TRUE
  Consecutive = FALSE
  MinFinish = 0
INVARIANTS FinishedWellFormed SortedNeverPanics FinishedAscending
CHECK_DEADLOCK FALSE

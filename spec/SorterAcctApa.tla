--------------------------- MODULE SorterAcctApa ---------------------------
(***************************************************************************)
(* Apalache: the bookkeeping invariant of the sorter's two-ended buffer    *)
(* (C17) is INDUCTIVE for every budget, every initial capacity, every      *)
(* entry size and every growth policy that ends with the entry fitting --  *)
(* not only for the constants TLC explores in MCSorter_acct_*.             *)
(*   apalache-mc check --init=IndInit --next=Next --inv=Inv --length=1     *)
(*   apalache-mc check --init=Init    --next=Next --inv=Inv --length=0     *)
(* Growth is abstracted: instead of "double until it fits" the new         *)
(* capacity is ANY multiple of 16 not smaller than the old one in which    *)
(* the entry fits (doubling is one such choice).                           *)
(***************************************************************************)
EXTENDS Integers

VARIABLES
    \* @type: Int;
    cap,
    \* @type: Int;
    elen,
    \* @type: Int;
    nb,
    \* @type: Int;
    sz,
    \* @type: Int;
    newcap,
    \* @type: Bool;
    spill

Fits(c, e, n, s) == c - e - 16 * n >= 16 + s /\ (c \div 16) - n >= 1

Inv == cap % 16 = 0 /\ cap >= 16 /\ elen >= 0 /\ nb >= 0 /\ 16 * nb + elen <= cap

\* any state satisfying the invariant (for the inductive step)
IndInit ==
    /\ cap \in Int /\ elen \in Int /\ nb \in Int /\ sz \in Int /\ newcap \in Int /\ spill \in BOOLEAN
    /\ Inv
\* a freshly built sorter (base case): capacity = the budget or the initial size rounded up to 16
Init ==
    /\ cap \in Int /\ cap >= 16 /\ cap % 16 = 0
    /\ elen = 0 /\ nb = 0 /\ sz \in Int /\ newcap \in Int /\ spill \in BOOLEAN

\* Sorter::insert on the accounting: store (growing if needed), or spill first and then store
Next ==
    /\ sz >= 0
    /\ newcap % 16 = 0 /\ newcap >= cap
    /\ IF spill
       THEN /\ Fits(newcap, 0, 0, sz)                  \* buffer cleared by write_chunk, then Entries::insert
            /\ cap' = newcap /\ elen' = sz /\ nb' = 1
       ELSE /\ Fits(newcap, elen, nb, sz)              \* Entries::insert after zero or more doublings
            /\ cap' = newcap /\ elen' = elen + sz /\ nb' = nb + 1
    /\ sz' \in Int /\ newcap' \in Int /\ spill' \in BOOLEAN
=============================================================================

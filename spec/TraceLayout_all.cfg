SPECIFICATION TraceSpec
POSTCONDITION TraceAccepted
CHECK_DEADLOCK FALSE
CONSTANTS
  CheckFormat = TRUE
  CheckCut = TRUE
  CheckLower = TRUE
  CheckSorted = FALSE

---------------------------- MODULE TraceSorterB ----------------------------
(* Level-B conformance (drift only): the accounting the real sorter reports through hook H2    *)
(* after every insert is compared with SorterAcct!AcctInsert step by step.                       *)
EXTENDS Integers, Sequences, TLC, Json, IOUtils, SorterAcct
Rec == ndJsonDeserialize(IOEnv.TRACE)
VARIABLES l, c, a
vars == <<l, c, a>>
NoC == [t |-> 16, init |-> 16, realloc |-> FALSE, maxc |-> 1, bycap |-> TRUE]
TraceInit == l = 1 /\ c = NoC /\ a = AcctInit(NoC)
IsEvent(e) == l <= Len(Rec) /\ Rec[l].ev = e /\ l' = l + 1
EvReset == IsEvent("Reset") /\ UNCHANGED <<c, a>>
EvSCfg ==
    /\ IsEvent("SCfg")
    /\ c' = [t |-> Rec[l].teff, init |-> Rec[l].init, realloc |-> Rec[l].realloc, maxc |-> Rec[l].maxc, bycap |-> TRUE]
    /\ a' = AcctInit(c')
EvAcct ==
    /\ IsEvent("Acct")
    /\ a' = AcctInsert(c, a, Rec[l].size).a
    /\ a' = [cap |-> Rec[l].cap, elen |-> Rec[l].elen, nb |-> Rec[l].nb, nchunks |-> Rec[l].chunks]
    /\ UNCHANGED c
EvOther == (IsEvent("ARun") \/ IsEvent("AllocSummary")) /\ UNCHANGED <<c, a>>
TraceNext == EvReset \/ EvSCfg \/ EvAcct \/ EvOther
TraceSpec == TraceInit /\ [][TraceNext]_vars
TraceAccepted ==
    LET d == TLCGet("stats").diameter IN
    IF d - 1 = Len(Rec) THEN TRUE
    ELSE /\ PrintT(<<"REJECTED-AT-LINE", d, Rec[d].ev>>) /\ FALSE
=============================================================================

------------------------------- MODULE Store -------------------------------
(***************************************************************************)
(* Level A: the abstract content of a grenad file -- a strictly ascending  *)
(* sequence of keys -- and the answers that content determines.            *)
(*                                                                         *)
(* Keys are integers: either *ranks* of byte strings in a dictionary whose *)
(* strict lexicographic order TLC has verified (kind "list"), or the       *)
(* values of fixed-width big-endian counters base + (i-1)*step (kind       *)
(* "arith", used for files with up to 10^6 entries, where fixed width      *)
(* makes numeric order = lexicographic order).                             *)
(***************************************************************************)
EXTENDS Integers, Sequences

ListContent(ks) == [kind |-> "list", ks |-> ks, n |-> Len(ks), base |-> 0, step |-> 1]
ArithContent(n, base, step) == [kind |-> "arith", ks |-> <<>>, n |-> n, base |-> base, step |-> step]
EmptyContent == ListContent(<<>>)

N(c) == c.n
KeyAt(c, i) == IF c.kind = "list" THEN c.ks[i] ELSE c.base + (i - 1) * c.step

WellFormed(c) ==
    /\ c.n >= 0
    /\ IF c.kind = "list" THEN \A i \in 1..(c.n - 1) : c.ks[i] < c.ks[i + 1]
       ELSE c.step >= 1

\* smallest i in lo..hi+1 such that every index < i has key < q  (binary search)
RECURSIVE LowerBound(_, _, _, _)
LowerBound(c, q, lo, hi) ==
    IF lo > hi THEN lo
    ELSE LET m == (lo + hi) \div 2 IN
         IF KeyAt(c, m) >= q THEN LowerBound(c, q, lo, m - 1) ELSE LowerBound(c, q, m + 1, hi)

\* index of the entry with the smallest key >= q, or 0
Ceil(c, q) == LET r == LowerBound(c, q, 1, N(c)) IN IF r > N(c) THEN 0 ELSE r
\* index of the entry with the largest key <= q, or 0
Floor(c, q) ==
    LET r == LowerBound(c, q, 1, N(c)) IN
    IF r <= N(c) /\ KeyAt(c, r) = q THEN r ELSE r - 1
\* index of the entry whose key is q, or 0
Exact(c, q) ==
    LET r == LowerBound(c, q, 1, N(c)) IN
    IF r <= N(c) /\ KeyAt(c, r) = q THEN r ELSE 0

\* Declarative definitions (MCStore checks that the fast ones agree).
CeilDef(c, q) ==
    IF \E i \in 1..N(c) : KeyAt(c, i) >= q
    THEN CHOOSE i \in 1..N(c) : KeyAt(c, i) >= q /\ \A j \in 1..(i - 1) : KeyAt(c, j) < q
    ELSE 0
FloorDef(c, q) ==
    IF \E i \in 1..N(c) : KeyAt(c, i) <= q
    THEN CHOOSE i \in 1..N(c) : KeyAt(c, i) <= q /\ \A j \in (i + 1)..N(c) : KeyAt(c, j) > q
    ELSE 0
ExactDef(c, q) ==
    IF \E i \in 1..N(c) : KeyAt(c, i) = q THEN CHOOSE i \in 1..N(c) : KeyAt(c, i) = q ELSE 0

\* <<a, a+1, ..., b>> (empty when a > b) and its reverse
Upto(a, b) == [i \in 1..(IF b >= a THEN b - a + 1 ELSE 0) |-> a + i - 1]
Downto(a, b) == [i \in 1..(IF b >= a THEN b - a + 1 ELSE 0) |-> b - i + 1]
=============================================================================

SPECIFICATION CSpec
CONSTANTS
  Blocks <- TBlocks
  RootOff <- TRoot
  L <- TLevels
  DataKeys <- TDataKeys
  Probes <- TProbes
  SyncOffsetOnReload = FALSE
INVARIANTS Refines LoadBound
VIEW View
CHECK_DEADLOCK FALSE

---------------------------- MODULE TraceCursor ----------------------------
(***************************************************************************)
(* Trace validation of recorded executions of the real grenad writer,      *)
(* reader and cursor against the Level-A contracts Store / CursorSpec.     *)
(* One trace line = one public call of the library, logged at its return.  *)
(* Used by C01 (write, open, scans), C02 (seeks on fresh/reset cursors),   *)
(* C03 (arbitrary histories, clones), C10 (the same on version-1 files)    *)
(* and C16 (CheckLoads = TRUE: block loads per call).                      *)
(***************************************************************************)
EXTENDS Integers, Sequences, TLC, Json, IOUtils, Bytes, CursorSpec

CONSTANT CheckLoads      \* enforce the C16 bound on block loads per operation

Rec == ndJsonDeserialize(IOEnv.TRACE)

VARIABLES
    l,          \* next line of the trace
    content,    \* Store content of the file under test
    cfg,        \* [codec, levels, ver] as configured by the writer
    curs        \* cursor id -> abstract cursor state
vars == <<l, content, cfg, curs>>

NoCfg == [codec |-> -1, levels |-> 0, ver |-> 2, maxblk |-> 0]
NoCurs == [c \in {} |-> Fresh]

TraceInit == l = 1 /\ content = EmptyContent /\ cfg = NoCfg /\ curs = NoCurs

IsEvent(e) == l <= Len(Rec) /\ Rec[l].ev = e /\ l' = l + 1

\* a new scenario starts: forget everything
EvReset == IsEvent("Reset") /\ content' = EmptyContent /\ cfg' = NoCfg /\ curs' = NoCurs

\* the dictionary of byte strings used by this scenario; ranks are positions in it.
\* TLC itself establishes that rank order is lexicographic byte order.
EvDict ==
    /\ IsEvent("Dict")
    /\ StrictlyAscending(Rec[l].strs)
    /\ UNCHANGED <<content, cfg, curs>>

\* a writer was configured, fed `keys` in this order and finished (C01)
EvWritten ==
    /\ IsEvent("Written")
    /\ LET e == Rec[l] IN
       /\ e.ins = "ok" /\ e.fin = "ok"
       /\ content' = IF e.kind = "list" THEN ListContent(e.keys)
                     ELSE ArithContent(e.n, e.base, e.step)
       /\ WellFormed(content')
       /\ cfg' = [codec |-> e.codec, levels |-> e.levels, ver |-> e.ver, maxblk |-> e.maxblk]
    /\ curs' = NoCurs

\* Reader::new on the finished file (C01, C10)
EvOpen ==
    /\ IsEvent("Open")
    /\ LET e == Rec[l] IN
       /\ e.res = "ok"
       /\ e.len = N(content)
       /\ e.codec = cfg.codec
       /\ e.ver = cfg.ver
       /\ e.levels = cfg.levels
       /\ e.empty = (N(content) = 0)
       \* C16: opening reads nothing before the trailer (22 bytes for V2, 21 for V1)
       /\ CheckLoads => e.rmin >= e.size - (IF cfg.ver = 1 THEN 21 ELSE 22)
    /\ UNCHANGED <<content, cfg, curs>>

\* Reader::into_cursor
EvCursor ==
    /\ IsEvent("Cursor")
    /\ Rec[l].res = "ok"
    /\ CheckLoads => Rec[l].io = 0          \* C16: creating a cursor performs no I/O
    /\ curs' = (Rec[l].c :> Fresh) @@ curs
    /\ UNCHANGED <<content, cfg>>

LoadsOk(n) == IF CheckLoads THEN n <= 2 * (cfg.levels + 2) ELSE TRUE
\* the same bound as a volume: an operation that loads at most 2 x (levels + 2) blocks cannot have
\* been handed more bytes by the source than that many of the file's largest stored block (each
\* with its 8-byte length prefix)
\* (written with IF and a quotient: TLC explores both sides of a disjunction inside an action, and
\* the product overflows its 32-bit integers on files with a 2^28-byte block)
BytesOk(b) ==
    IF CheckLoads
    THEN LET blk == cfg.maxblk + 8
             bound == 2 * (cfg.levels + 2)
             q == b \div blk IN
         IF q < bound THEN TRUE ELSE (q = bound /\ b % blk = 0)
    ELSE TRUE

\* one cursor operation
EvOp ==
    /\ IsEvent("Op")
    /\ LET e == Rec[l] IN
       /\ e.c \in DOMAIN curs
       /\ e.op \in Ops
       /\ Allowed(content, curs[e.c], e.op, e.q, e.res)
       /\ LoadsOk(e.loads)
       /\ BytesOk(e.bytes)
       /\ curs' = [curs EXCEPT ![e.c] = After(curs[e.c], e.op, e.res)]
    /\ UNCHANGED <<content, cfg>>

\* one cursor operation of a history in which a source failure is injected (family history_faulty)
EvOpF ==
    /\ IsEvent("OpF")
    /\ LET e == Rec[l] IN
       /\ e.c \in DOMAIN curs
       /\ e.op \in Ops
       /\ AllowedF(content, curs[e.c], e.op, e.q, e.res, e.fired)
       /\ curs' = [curs EXCEPT ![e.c] = AfterF(curs[e.c], e.op, e.res, e.fired)]
    /\ UNCHANGED <<content, cfg>>

\* Clone: d continues from c's position, independently
EvClone ==
    /\ IsEvent("Clone")
    /\ Rec[l].c \in DOMAIN curs
    /\ curs' = (Rec[l].d :> curs[Rec[l].c]) @@ curs
    /\ UNCHANGED <<content, cfg>>

\* a cursor (a clone used to try one operation) is dropped
EvForget ==
    /\ IsEvent("Forget")
    /\ Rec[l].c \in DOMAIN curs
    /\ curs' = [c \in DOMAIN curs \ {Rec[l].c} |-> curs[c]]
    /\ UNCHANGED <<content, cfg>>

\* a whole scan (next / prev until None) from a fresh or reset cursor, logged as one event
EvScan ==
    /\ IsEvent("Scan")
    /\ LET e == Rec[l] IN
       /\ e.c \in DOMAIN curs
       /\ curs[e.c] = Fresh
       /\ e.out = ScanAnswer(content, e.dir)
       /\ LoadsOk(e.maxloads) /\ BytesOk(e.maxbytes)
       /\ curs' = [curs EXCEPT ![e.c] = [pos |-> 0, zone |-> "rel"]]
    /\ UNCHANGED <<content, cfg>>

\* summary of an exhaustive exploration (informational)
EvExplored == IsEvent("Explored") /\ UNCHANGED <<content, cfg, curs>>

TraceNext == EvExplored \/ EvReset \/ EvDict \/ EvWritten \/ EvOpen \/ EvCursor \/ EvOp \/ EvOpF \/ EvClone \/ EvForget \/ EvScan

TraceSpec == TraceInit /\ [][TraceNext]_vars

TraceAccepted ==
    LET d == TLCGet("stats").diameter IN
    IF d - 1 = Len(Rec) THEN TRUE
    ELSE /\ PrintT(<<"REJECTED-AT-LINE", d, Rec[d].ev>>)
         /\ FALSE
=============================================================================

----------------------------- MODULE WriterImpl -----------------------------
(***************************************************************************)
(* Level B: grenad's Writer as it is coded -- BlockWriter::insert/finish,  *)
(* Writer::insert (data block cut, then the cascade over the index levels  *)
(* from the deepest one up, which never reaches the level directly below   *)
(* the root), Writer::into_inner (final flush of the data block, then of   *)
(* every index level, the empty root of an empty file, the trailer).       *)
(*                                                                         *)
(* One public call = one action.  The emitted blocks are kept in the shape *)
(* the independent decoder produces, so the finished file is judged by the *)
(* very predicates of Layout.tla that judge real files:                    *)
(*     finished  =>  Layout!WellFormedV2 /\ Layout!CutRule      (C01/C09/C15) *)
(*     finished  =>  Layout!BlocksAscending, for ANY insert sequence  (C18) *)
(* Sizes: an entry occupies FrameLen(|k|) + FrameLen(|v|) + |k| + |v|      *)
(* bytes; a block is its entries, 8 bytes per offset-table slot and the    *)
(* 4-byte count.  Stored length = uncompressed length (codec None).        *)
(***************************************************************************)
EXTENDS Integers, Sequences, FiniteSets, TLC, Layout

CONSTANTS
    L,            \* index levels (0..255)
    K,            \* index key interval (>= 1)
    BlockSize,    \* requested block size
    MinBlock,     \* the clamp (1024 in the code; scaled down in model checking)
    KeyLen,       \* key id -> byte length of the key
    ValLens,      \* value byte lengths the environment may choose
    MaxInserts,
    SortedOnly,   \* TRUE: the environment inserts strictly ascending keys only
    Keys,         \* key ids (positive integers; order = byte order)
    LevelsFitU8,  \* TRUE: (len - 1) as u8 (as repaired); FALSE: len as u8 - 1 (as found)
    MinFinish,    \* the writer is not finished before that many inserts (test generation; 0 otherwise)
    Consecutive   \* TRUE: the i-th insert uses key i (long dense files for test generation)

B == IF BlockSize >= MinBlock THEN BlockSize ELSE MinBlock
FrameLen(n) == IF n < 128 THEN 1 ELSE IF n < 16384 THEN 2 ELSE IF n < 2097152 THEN 3 ELSE IF n < 268435456 THEN 4 ELSE 5
EntrySize(kl, vl) == FrameLen(kl) + FrameLen(vl) + kl + vl

\* a BlockWriter under construction
EmptyBW == [payload |-> 0, last |-> 0, table |-> <<0>>, counter |-> 0,
            keys |-> <<>>, v8 |-> <<>>, vm |-> <<>>, eoffs |-> <<>>, esz |-> <<>>]
SizeOf(w) == w.payload + 8 * Len(w.table) + 4

\* BlockWriter::insert; `ok` is FALSE when the strict-order assertion fires
BlockInsert(w, k, kl, vl, v8, vm) ==
    LET t == IF w.counter = K THEN Append(w.table, w.payload) ELSE w.table
        c == IF w.counter = K THEN 0 ELSE w.counter
        sz == EntrySize(kl, vl) IN
    [ok |-> (w.last = 0 \/ k > w.last),
     w |-> [payload |-> w.payload + sz, last |-> k, table |-> t, counter |-> c + 1,
            keys |-> Append(w.keys, k), v8 |-> Append(w.v8, v8), vm |-> Append(w.vm, vm),
            eoffs |-> Append(w.eoffs, w.payload), esz |-> Append(w.esz, sz)]]

\* BlockWriter::finish + compress_and_write_block: the block as the decoder will see it
BlockOf(w, off) ==
    [off |-> off, stored |-> SizeOf(w), usize |-> SizeOf(w), payload |-> w.payload,
     table |-> w.table, count |-> Len(w.table), keys |-> w.keys, v8 |-> w.v8, vm |-> w.vm,
     eoffs |-> w.eoffs, esz |-> w.esz, junk |-> 0, raw |-> <<>>]

VARIABLES
    bw,        \* the data block under construction
    iw,        \* iw[1] = root index block writer ... iw[L+1] = the level that points at data blocks
    emitted,   \* blocks written so far
    count,     \* CountWrite's counter = offset of the next block
    inserts,   \* the keys inserted so far (in order)
    vls,       \* the value lengths chosen for them
    status,    \* "open" | "panicked" | "finished"
    root,      \* offset recorded in the trailer
    tlevels    \* the index-levels byte of the trailer (-1: the computation overflowed)
wvars == <<bw, iw, emitted, count, inserts, vls, status, root, tlevels>>

WInit ==
    /\ bw = EmptyBW /\ iw = [i \in 1..(L + 1) |-> EmptyBW]
    /\ emitted = <<>> /\ count = 0 /\ inserts = <<>> /\ vls = <<>> /\ status = "open" /\ root = 0 /\ tlevels = 0

\* state threaded through the sequential steps of one public call
St(b, i, e, c, ok) == [bw |-> b, iw |-> i, emitted |-> e, count |-> c, ok |-> ok]

\* emit block writer `w` (which becomes empty) after registering it in its parent `p` (index in iw)
Register(st, p, key, kl) ==
    LET r == BlockInsert(st.iw[p], key, kl, 8, st.count, 0) IN
    [st EXCEPT !.iw[p] = r.w, !.ok = st.ok /\ r.ok]

\* the cascade of Writer::insert: levels L+1 down to 2; level i is dumped only when its
\* parent i-1 is itself in the slice the loop iterates, i.e. i >= 3
RECURSIVE Cascade(_, _)
Cascade(st, i) ==
    IF i < 2 \/ ~st.ok THEN st
    ELSE IF SizeOf(st.iw[i]) >= B /\ st.iw[i].last # 0 /\ i >= 3
         THEN LET s1 == Register(st, i - 1, st.iw[i].last, KeyLen[st.iw[i].last])
                  s2 == [s1 EXCEPT !.emitted = Append(s1.emitted, BlockOf(s1.iw[i], s1.count)),
                                   !.count = s1.count + 8 + SizeOf(s1.iw[i]),
                                   !.iw[i] = EmptyBW] IN
              Cascade(s2, i - 1)
         ELSE Cascade(st, i - 1)

Insert(k, vl) ==
    /\ status = "open" /\ Len(inserts) < MaxInserts
    /\ SortedOnly => (IF inserts = <<>> THEN TRUE ELSE k > inserts[Len(inserts)])
    /\ Consecutive => k = Len(inserts) + 1
    /\ LET r == BlockInsert(bw, k, KeyLen[k], vl, -1, Len(inserts) + 1) IN
       IF ~r.ok THEN /\ status' = "panicked"
                     /\ UNCHANGED <<bw, iw, emitted, count, root, tlevels>>
                     /\ inserts' = Append(inserts, k) /\ vls' = Append(vls, vl)
       ELSE LET s0 == St(r.w, iw, emitted, count, TRUE)
                s3 == IF SizeOf(r.w) >= B
                      THEN LET s1 == Register(s0, L + 1, k, KeyLen[k])
                               s2 == [s1 EXCEPT !.emitted = Append(s1.emitted, BlockOf(s1.bw, s1.count)),
                                                !.count = s1.count + 8 + SizeOf(s1.bw),
                                                !.bw = EmptyBW] IN
                           Cascade(s2, L + 1)
                      ELSE s0 IN
            /\ bw' = s3.bw /\ iw' = s3.iw /\ emitted' = s3.emitted /\ count' = s3.count
            /\ status' = IF s3.ok THEN "open" ELSE "panicked"
            /\ inserts' = Append(inserts, k) /\ vls' = Append(vls, vl)
            /\ UNCHANGED <<root, tlevels>>

\* into_inner: the index levels from the deepest one to the root
RECURSIVE FlushLevels(_, _, _)
FlushLevels(st, i, off) ==
    IF i < 1 \/ ~st.ok THEN [st |-> st, root |-> off]
    ELSE LET here == st.count IN
         IF st.iw[i].last # 0
         THEN LET s1 == IF i >= 2 THEN Register(st, i - 1, st.iw[i].last, KeyLen[st.iw[i].last]) ELSE st
                  s2 == [s1 EXCEPT !.emitted = Append(s1.emitted, BlockOf(s1.iw[i], here)),
                                   !.count = here + 8 + SizeOf(s1.iw[i]),
                                   !.iw[i] = EmptyBW] IN
              FlushLevels(s2, i - 1, here)
         ELSE IF i = 1            \* the main index block is written even when empty
              THEN LET s2 == [st EXCEPT !.emitted = Append(st.emitted, BlockOf(st.iw[1], here)),
                                        !.count = here + 8 + SizeOf(st.iw[1])] IN
                   FlushLevels(s2, 0, here)
              ELSE FlushLevels(st, i - 1, here)

Finish ==
    /\ status = "open" /\ Len(inserts) >= MinFinish
    /\ LET s0 == St(bw, iw, emitted, count, TRUE)
           s1 == IF bw.last # 0
                 THEN LET a == Register(s0, L + 1, bw.last, KeyLen[bw.last]) IN
                      [a EXCEPT !.emitted = Append(a.emitted, BlockOf(a.bw, a.count)),
                                !.count = a.count + 8 + SizeOf(a.bw), !.bw = EmptyBW]
                 ELSE s0
           f == FlushLevels(s1, L + 1, s1.count)
           lv == IF LevelsFitU8 THEN L ELSE ((L + 1) % 256) - 1 IN
       /\ bw' = f.st.bw /\ iw' = f.st.iw /\ emitted' = f.st.emitted
       /\ count' = f.st.count + 22
       /\ root' = f.root
       /\ tlevels' = lv
       /\ status' = IF f.st.ok /\ lv >= 0 THEN "finished" ELSE "panicked"
    /\ UNCHANGED <<inserts, vls>>

WNext ==
    \/ \E k \in Keys, vl \in ValLens : Insert(k, vl)
    \/ Finish
WSpec == WInit /\ [][WNext]_wvars

-----------------------------------------------------------------------------
(* the finished file, in the shape Layout.tla judges *)
LE8(n) == <<n % 256, (n \div 256) % 256, (n \div 65536) % 256, (n \div 16777216) % 256, 0, 0, 0, 0>>
TrailerBytes == LE8(root) \o <<0>> \o LE8(Len(inserts)) \o <<tlevels>> \o MagicV2
File == [size |-> count, trailer |-> TrailerBytes, blocks |-> emitted, slack |-> 0, error |-> ""]

\* C01 / C09 / C15 on the model: a finished file fed sorted input is well formed, holds exactly
\* the inserts, and respects the cut rule (including "reached B" for non-final blocks)
FinishedWellFormed ==
    (status = "finished" /\ Ascending(inserts)) =>
        /\ WellFormedV2(File, 0, K, L, inserts)
        /\ CutRule(File, B, K, L)
        /\ EarlyCuts(File, B, K, L) = {}
\* test generation: the inserts of a finished behaviour and the layout the model predicts for them
EmitSeq ==
    status = "finished" =>
        PrintT("WSEQ " \o ToString(<<inserts, vls,
                 [i \in 1..Len(emitted) |-> <<emitted[i].off, emitted[i].usize, Len(emitted[i].keys)>>]>>))
\* the writer only ever appends: blocks already emitted never change and the offset never decreases
\* (what a crashed writer leaves behind is a prefix of what it would have written)
AppendOnly ==
    [][/\ Len(emitted') >= Len(emitted)
       /\ SubSeq(emitted', 1, Len(emitted)) = emitted
       /\ count' >= count]_wvars
\* sorted input never panics
SortedNeverPanics == (status = "panicked") => ~Ascending(inserts)
\* C18: whatever was inserted, a finished file only has ascending blocks
FinishedAscending == status = "finished" => BlocksAscending(File)
=============================================================================

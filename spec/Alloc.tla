-------------------------------- MODULE Alloc --------------------------------
(***************************************************************************)
(* C17 (the part a specification can state).                               *)
(* 1. Allocation protocol, as seen by the monitoring allocator: every      *)
(*    block is freed with the layout it was allocated with, once, with its *)
(*    guard words intact, and the blocks of the sorter's buffer class are  *)
(*    all returned once the sorter and its iterators are dropped.          *)
(* 2. Buffer bookkeeping of the sorter (hook H2): the bounds stored at the *)
(*    front (16 bytes each) and the entry bytes stored at the back of the  *)
(*    buffer never overlap, and the buffer length is a multiple of the     *)
(*    bound size.                                                          *)
(* 3. No size / offset computation overflows (an overflow-checked build    *)
(*    turns that into a panic whose message says so).                      *)
(* 4. Values handed out by a merger are never read from freed memory, also *)
(*    after a call has returned an error (freed memory is poisoned).       *)
(***************************************************************************)
EXTENDS Integers

ProtocolOk(s) ==
    /\ s.mismatch = 0          \* dealloc layout = alloc layout
    /\ s.guard = 0             \* nothing wrote just past either end of a block
    /\ s.double_free = 0
    /\ s.bad_magic = 0         \* nothing wrote just before a block
    /\ s.leaked_class <= 0     \* the buffer is given back

BoundSize == 16
BookkeepingOk(a) ==
    /\ a.cap % BoundSize = 0
    /\ BoundSize * a.nb + a.elen <= a.cap
    /\ a.nb >= 0 /\ a.elen >= 0

NoOverflow(r) == ~r.overflow

\* 4. Borrowed values stay live: the monitoring allocator fills freed memory with a byte pattern no
\*    stored value contains, so a value handed to the merge function (or yielded) that shows a run
\*    of it was read from freed memory.  Stated for a merger whose merge function failed once and
\*    whose caller keeps pulling: nothing is specified about WHAT comes out then, only that it is
\*    live memory.
LiveValuesOk(e) == e.poisoned = 0
=============================================================================

-------------------------------- MODULE MCIO --------------------------------
EXTENDS IO
MCBuffers == << <<1, 2>>, <<3>>, <<4, 5, 6>>, <<7, 8>> >>
MCData == <<1, 2, 3, 4, 5, 6, 7, 8, 9>>
MCWants == <<2, 1, 4, 2>>
\* the read-side variables are unused on the write side and vice versa
WSpecAll == (WInit /\ RInit) /\ [][WNext /\ UNCHANGED rvars]_<<wvars, rvars>>
RSpecAll == (WInit /\ RInit) /\ [][RNext /\ UNCHANGED wvars]_<<wvars, rvars>>
WLiveAll == WSpecAll /\ WF_<<wvars, rvars>>((StartWriteAll \/ (\E n \in 1..3 : SinkAccept(n))) /\ UNCHANGED rvars)
RLiveAll == RSpecAll /\ WF_<<wvars, rvars>>((StartRead \/ (\E n \in 1..3 : SourceGive(n))) /\ UNCHANGED wvars)
=============================================================================

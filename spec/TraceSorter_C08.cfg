SPECIFICATION TraceSpec
POSTCONDITION TraceAccepted
CHECK_DEADLOCK FALSE
CONSTANTS
  CheckOutput = FALSE
  CheckBounds = TRUE

---------------------------- MODULE TraceMerger ----------------------------
(***************************************************************************)
(* Trace validation of the real Merger / MergerIter / stream-writer path   *)
(* against the contract operators of Merger.tla (C06).                     *)
(* Events: Src (one per source, in the order they were added), MergeCall   *)
(* (logged by the recording merge function), Out (one per MergerIter::next *)
(* that returned an entry), End (next returned None), WOut (content of the *)
(* file produced by write_into_stream_writer, scanned back).               *)
(***************************************************************************)
EXTENDS Integers, Sequences, TLC, Json, IOUtils, Bytes
SX == INSTANCE SequencesExt
M == INSTANCE MergerContract

Rec == ndJsonDeserialize(IOEnv.TRACE)

VARIABLES l, ss, pending, nout, mf, u
tvars == <<l, ss, pending, nout, mf, u>>

TraceInit == l = 1 /\ ss = <<>> /\ pending = <<>> /\ nout = 0 /\ mf = "concat" /\ u = <<>>
IsEvent(e) == l <= Len(Rec) /\ Rec[l].ev = e /\ l' = l + 1

EvReset == IsEvent("Reset") /\ ss' = <<>> /\ pending' = <<>> /\ nout' = 0 /\ mf' = "concat" /\ u' = <<>>
EvDict == IsEvent("Dict") /\ StrictlyAscending(Rec[l].strs) /\ UNCHANGED <<ss, pending, nout, mf, u>>

\* a source was added (its keys are dictionary ranks, strictly ascending)
EvSrc ==
    /\ IsEvent("Src")
    /\ Rec[l].i = Len(ss) + 1
    /\ M!AscendingSeq(Rec[l].keys)
    /\ ss' = Append(ss, Rec[l].keys)
    /\ UNCHANGED <<pending, nout, mf, u>>

\* the merger was built: which merge function it uses
EvBuilt ==
    /\ IsEvent("Built")
    /\ Rec[l].res = "ok"
    /\ mf' = Rec[l].mf
    \* the ascending union of the sources' keys, computed once (keys are integer ranks)
    /\ u' = SX!SetToSortSeq(M!AllKeys(ss), LAMBDA a, b : a < b)
    /\ UNCHANGED <<ss, pending, nout>>

EvMergeCall ==
    /\ IsEvent("MergeCall")
    /\ pending' = Append(pending, [k |-> Rec[l].k, vals |-> Rec[l].vals])
    /\ UNCHANGED <<ss, nout, mf, u>>


\* MergerIter::next returned an entry: it is the next key of the union, with the expected
\* value, and the merge function was called as the contract allows since the previous output
EvOut ==
    /\ IsEvent("Out")
    /\ LET e == Rec[l] IN
       /\ nout < Len(u)
       /\ e.k = u[nout + 1]
       /\ e.v = M!Expected(ss, e.k, mf)
       /\ M!CallsOk(ss, e.k, pending)
    /\ nout' = nout + 1
    /\ pending' = <<>>
    /\ UNCHANGED <<ss, mf, u>>

\* MergerIter::next returned None: every key of the union was yielded
EvEnd ==
    /\ IsEvent("End")
    /\ Rec[l].res = "ok"
    /\ nout = Len(u)
    /\ pending = <<>>
    /\ UNCHANGED <<ss, pending, nout, mf, u>>

\* write_into_stream_writer: the produced file holds exactly the merged content; the merge
\* function was called once per shared key in key order (checked on the whole call list)
EvWOut ==
    /\ IsEvent("WOut")
    /\ LET e == Rec[l] IN
       /\ e.res = "ok"
       /\ Len(e.entries) = Len(u)
       /\ \A x \in 1..Len(u) : e.entries[x].k = u[x] /\ e.entries[x].v = M!Expected(ss, u[x], mf)
       /\ \A x \in 1..Len(u) : M!CallsOk(ss, u[x], SelectSeq(pending, LAMBDA c : c.k = u[x]))
       /\ \A c \in 1..Len(pending) : pending[c].k \in M!AllKeys(ss)
    /\ pending' = <<>>
    /\ UNCHANGED <<ss, nout, mf, u>>

TraceNext == EvReset \/ EvDict \/ EvSrc \/ EvBuilt \/ EvMergeCall \/ EvOut \/ EvEnd \/ EvWOut
TraceSpec == TraceInit /\ [][TraceNext]_tvars

TraceAccepted ==
    LET d == TLCGet("stats").diameter IN
    IF d - 1 = Len(Rec) THEN TRUE
    ELSE /\ PrintT(<<"REJECTED-AT-LINE", d, Rec[d].ev>>) /\ FALSE
=============================================================================

SPECIFICATION MSpec
CONSTANTS
  NSrc = 3
  Keys = {1, 2, 3, 4}
  TieBySourceIndex = TRUE
INVARIANTS OutPrefixOk DoneComplete EmitRun
CHECK_DEADLOCK FALSE

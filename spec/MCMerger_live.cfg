SPECIFICATION MLive
CONSTANTS
  NSrc = 3
  Keys = {1, 2, 3}
  TieBySourceIndex = TRUE
PROPERTIES Progress Terminates DoneStable
CHECK_DEADLOCK FALSE

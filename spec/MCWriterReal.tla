---------------------------- MODULE MCWriterReal ----------------------------
(* WriterImpl at real scale (1 KiB blocks, 300-byte and 4-byte keys): behaviours are generated *)
(* with tlc -simulate and replayed on the real writer (see bin/plans.py writer_model).         *)
EXTENDS WriterImpl
RKeyLen == [k \in 1..60 |-> IF k % 5 = 0 THEN 4 ELSE 300]
=============================================================================

------------------------------- MODULE Merger -------------------------------
(***************************************************************************)
(* C06, Level B: an implementation-shaped model of grenad's MergerIter     *)
(* (binary heap ordered by (key, source index), pop all heads equal to the *)
(* smallest key, merge once, advance, push back), checked by TLC against   *)
(* the contract operators of MergerContract for every overlap pattern of   *)
(* small sources.                                                          *)
(***************************************************************************)
EXTENDS MergerContract, TLC
CONSTANTS NSrc, Keys,           \* model checking: number of sources, key universe (integers)
          TieBySourceIndex     \* TRUE: equal keys pop in source order (as coded); FALSE: reversed (must fail)

VARIABLES
    srcs,      \* the sources (chosen in Init: every tuple of ascending sequences over Keys)
    head,      \* head[i]: position of source i's cursor (Len+1 = exhausted)
    heap,      \* set of source indices currently in the heap
    out,       \* sequence of [k, v] yielded so far
    calls,     \* sequence of [k, vals] the merge function received
    phase      \* "seed" | "run" | "done"
mvars == <<srcs, head, heap, out, calls, phase>>

AscSeqsOver(S) == {SortedSeq(T) : T \in SUBSET S}

MInit ==
    /\ srcs \in [1..NSrc -> AscSeqsOver(Keys)]
    /\ head = [i \in 1..NSrc |-> 0]
    /\ heap = {}
    /\ out = <<>> /\ calls = <<>>
    /\ phase = "seed"

\* into_stream_merger_iter: move every source on its first entry, push the non-empty ones
Seed ==
    /\ phase = "seed"
    /\ head' = [i \in 1..NSrc |-> 1]
    /\ heap' = {i \in 1..NSrc : Len(srcs[i]) >= 1}
    /\ phase' = "run"
    /\ UNCHANGED <<srcs, out, calls>>

HeadKey(i) == srcs[i][head[i]]
\* heap order: smallest (key, source index) first
Before(i, j) == HeadKey(i) < HeadKey(j) \/ (HeadKey(i) = HeadKey(j) /\ (IF TieBySourceIndex THEN i < j ELSE i > j))

\* MergerIter::next
NextOut ==
    /\ phase = "run" /\ heap # {}
    /\ LET first == CHOOSE i \in heap : \A j \in heap \ {i} : Before(i, j)
           k == HeadKey(first)
           same == {i \in heap : HeadKey(i) = k}            \* popped while the peeked key is equal
           order == IF TieBySourceIndex THEN SortedSeq(same)   \* pops come out in (key, index) order
                    ELSE [x \in 1..Cardinality(same) |-> SortedSeq(same)[Cardinality(same) - x + 1]]
           vals == [x \in 1..Len(order) |-> <<order[x], head[order[x]]>>] IN
       /\ calls' = Append(calls, [k |-> k, vals |-> vals])  \* merge is called for every key
       /\ out' = Append(out, [k |-> k, v |-> vals])
       /\ head' = [i \in 1..NSrc |-> IF i \in same THEN head[i] + 1 ELSE head[i]]
       /\ heap' = (heap \ same) \cup {i \in same : head[i] + 1 <= Len(srcs[i])}
    /\ UNCHANGED <<srcs, phase>>

Finish ==
    /\ phase = "run" /\ heap = {}
    /\ phase' = "done"
    /\ UNCHANGED <<srcs, head, heap, out, calls>>

MNext == Seed \/ NextOut \/ Finish \/ (phase = "done" /\ UNCHANGED mvars)
MSpec == MInit /\ [][MNext]_mvars

SrcTuple == [i \in 1..NSrc |-> srcs[i]]

\* refinement of the contract: checked in every state (prefix form) and at the end
OutPrefixOk ==
    LET u == SortedSeq(AllKeys(SrcTuple)) IN
    /\ Len(out) <= Len(u)
    /\ \A x \in 1..Len(out) :
        /\ out[x].k = u[x]
        /\ out[x].v = Expected(SrcTuple, u[x], "concat")
        /\ CallsOk(SrcTuple, u[x], SelectSeq(calls, LAMBDA c : c.k = u[x]))
DoneComplete == phase = "done" => Len(out) = Cardinality(AllKeys(SrcTuple))
\* test generation: the sources of a completed run and the output the model predicts
EmitRun == phase = "done" => PrintT("MRUN " \o ToString(<<SrcTuple, [x \in 1..Len(out) |-> <<out[x].k, out[x].v>>]>>))
-----------------------------------------------------------------------------
(* liveness: every call of next consumes at least one entry of every source it popped, so the  *)
(* number of entries still to visit strictly decreases and iteration ends after finitely many   *)
(* calls (checked under weak fairness of the iterator's own steps: MCMerger_live.cfg)           *)
RECURSIVE RemFrom(_)
RemFrom(i) == IF i > NSrc THEN 0 ELSE (Len(srcs[i]) + 1 - head[i]) + RemFrom(i + 1)
Remaining == RemFrom(1)
Progress == [][(phase = "run" /\ phase' = "run") => Remaining' < Remaining]_mvars
MLive == MSpec /\ WF_mvars(Seed \/ NextOut \/ Finish)
Terminates == <>(phase = "done")
\* once done, the iterator stays done and yields nothing more
DoneStable == [][phase = "done" => (phase' = "done" /\ out' = out)]_mvars

=============================================================================

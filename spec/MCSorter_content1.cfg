SPECIFICATION SSpec
CONSTANTS
  T = 64
  InitCap = 32
  Realloc = FALSE
  MaxChunks = 1
  Sizes = {0, 8, 70}
  KeysU = {1, 2}
  TrackContent = TRUE
  MaxInserts = 5
  ExceededUsesCapacity = TRUE
  GenLen = 0
INVARIANTS Bookkeeping LiveBound2 OutputCorrect
CHECK_DEADLOCK FALSE

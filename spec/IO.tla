--------------------------------- MODULE IO ---------------------------------
(***************************************************************************)
(* C11, Level B: the I/O loops grenad relies on, under every schedule of   *)
(* the environment.                                                        *)
(* Write side: a sequence of write_all calls (block length prefix, block   *)
(* body, trailer fields) through CountWrite into a sink that, per call,    *)
(* accepts 1..len bytes or reports an interruption.  Read side: read_exact *)
(* (headers) and a bounded read_to_end (block bodies) from a source that   *)
(* returns 1..want bytes or an interruption.                               *)
(* CountAccepted = FALSE models the regression "count what was offered".   *)
(***************************************************************************)
EXTENDS Integers, Sequences, FiniteSets

CONSTANTS
    Buffers,        \* the write_all calls: a sequence of byte sequences
    MaxIntr,        \* bound on the number of interruptions per behaviour
    CountAccepted   \* TRUE: CountWrite adds what the sink accepted (as coded)

RECURSIVE Concat(_)
Concat(ss) == IF ss = <<>> THEN <<>> ELSE Head(ss) \o Concat(Tail(ss))
Stream == Concat(Buffers)

VARIABLES
    next,       \* index of the next write_all call
    buf,        \* bytes of the current write_all not yet accepted
    accepted,   \* everything the sink accepted so far
    count,      \* CountWrite's counter
    offsets,    \* value of the counter observed before each write_all (what the writer records
                \* as a block offset)
    intr
wvars == <<next, buf, accepted, count, offsets, intr>>

WInit == next = 1 /\ buf = <<>> /\ accepted = <<>> /\ count = 0 /\ offsets = <<>> /\ intr = 0

\* the writer reads the counter (offset of the block it is about to write) and calls write_all
StartWriteAll ==
    /\ buf = <<>> /\ next <= Len(Buffers)
    /\ offsets' = Append(offsets, count)
    /\ buf' = Buffers[next]
    /\ next' = next + 1
    /\ UNCHANGED <<accepted, count, intr>>

\* one write call: the sink accepts the first n bytes
SinkAccept(n) ==
    /\ buf # <<>> /\ n \in 1..Len(buf)
    /\ accepted' = accepted \o SubSeq(buf, 1, n)
    /\ count' = count + (IF CountAccepted THEN n ELSE Len(buf))
    /\ buf' = SubSeq(buf, n + 1, Len(buf))
    /\ UNCHANGED <<next, offsets, intr>>

\* one write call: the sink reports Interrupted; write_all retries
SinkInterrupt ==
    /\ buf # <<>> /\ intr < MaxIntr
    /\ intr' = intr + 1
    /\ UNCHANGED <<next, buf, accepted, count, offsets>>

WDone == next > Len(Buffers) /\ buf = <<>> /\ UNCHANGED wvars

WNext == StartWriteAll \/ (\E n \in 1..3 : SinkAccept(n)) \/ (buf # <<>> /\ SinkAccept(Len(buf))) \/ SinkInterrupt \/ WDone
WSpec == WInit /\ [][WNext]_wvars

\* the accepted stream is always a prefix of the offered stream ...
PrefixOk == Len(accepted) <= Len(Stream) /\ accepted = SubSeq(Stream, 1, Len(accepted))
\* ... the counter is exact whenever a write_all has returned ...
CountOk == buf = <<>> => count = Len(accepted)
\* ... so every recorded offset is the true position of its buffer in the stream
RECURSIVE LenUpTo(_, _)
LenUpTo(ss, i) == IF i = 0 THEN 0 ELSE LenUpTo(ss, i - 1) + Len(ss[i])
OffsetsOk == \A i \in 1..Len(offsets) : offsets[i] = LenUpTo(Buffers, i - 1)
CompleteOk == (next > Len(Buffers) /\ buf = <<>>) => accepted = Stream

\* liveness (write side): if the sink keeps accepting bytes (weak fairness of the accepting steps;
\* interruptions are finite), every write_all returns and the whole stream gets through; the
\* accepted stream only ever grows
WLiveness == WF_wvars(StartWriteAll \/ (\E n \in 1..3 : SinkAccept(n)))
WTerminates == <>(next > Len(Buffers) /\ buf = <<>> /\ accepted = Stream)
WMonotone == [][Len(accepted') >= Len(accepted) /\ count' >= count]_wvars

-----------------------------------------------------------------------------
(* read side *)
CONSTANTS Data, Wants      \* the source content; the sequence of read_exact sizes
VARIABLES pos, got, want, results, rintr, ri
rvars == <<pos, got, want, results, rintr, ri>>
RECURSIVE LenUpToW(_)
LenUpToW(i) == IF i = 0 THEN 0 ELSE LenUpToW(i - 1) + Wants[i]
RInit == pos = 0 /\ got = <<>> /\ want = 0 /\ results = <<>> /\ rintr = 0 /\ ri = 1
StartRead ==
    /\ want = 0 /\ ri <= Len(Wants)
    /\ want' = Wants[ri] /\ got' = <<>> /\ ri' = ri + 1
    /\ UNCHANGED <<pos, results, rintr>>
SourceGive(n) ==
    /\ want > 0 /\ n \in 1..want /\ pos + n <= Len(Data)
    /\ got' = got \o SubSeq(Data, pos + 1, pos + n)
    /\ pos' = pos + n
    /\ IF n = want THEN results' = Append(results, got') /\ want' = 0
       ELSE want' = want - n /\ UNCHANGED results
    /\ UNCHANGED <<rintr, ri>>
SourceInterrupt == want > 0 /\ rintr < MaxIntr /\ rintr' = rintr + 1 /\ UNCHANGED <<pos, got, want, results, ri>>
RDone == want = 0 /\ ri > Len(Wants) /\ UNCHANGED rvars
RNext == StartRead \/ (\E n \in 1..3 : SourceGive(n)) \/ (want > 0 /\ SourceGive(want)) \/ SourceInterrupt \/ RDone
RSpec == RInit /\ [][RNext]_rvars
\* every completed read delivered exactly the bytes at its position, whatever the schedule
ReadsOk == \A i \in 1..Len(results) : results[i] = SubSeq(Data, LenUpToW(i - 1) + 1, LenUpToW(i))
\* liveness (read side): if the source keeps giving bytes, every read_exact completes
RLiveness == WF_rvars(StartRead \/ (\E n \in 1..3 : SourceGive(n)))
RTerminates == <>(want = 0 /\ ri > Len(Wants) /\ Len(results) = Len(Wants))
RMonotone == [][pos' >= pos]_rvars

=============================================================================

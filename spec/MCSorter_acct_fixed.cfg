SPECIFICATION SSpec
CONSTANTS
  T = 200
  InitCap = 32
  Realloc = FALSE
  MaxChunks = 1
  Sizes = {0, 1, 7, 16, 20, 33, 34}
  KeysU = {1}
  TrackContent = FALSE
  MaxInserts = 0
  ExceededUsesCapacity = TRUE
INVARIANTS Bookkeeping VolumeBound LiveBound2
CHECK_DEADLOCK FALSE

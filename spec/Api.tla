--------------------------------- MODULE Api ---------------------------------
(***************************************************************************)
(* The rest of the public surface, beyond the listed properties (growth of *)
(* the specification, DESIGN.md section 11).                               *)
(*  - codec names: CompressionType::from_str accepts exactly five names    *)
(*    (there is no name for the uncompressed codec) and maps them to the   *)
(*    codec ids of the file format                                         *)
(*  - defaults: a writer built without options behaves as codec None,      *)
(*    block size 8192, index interval 8, index levels 0                    *)
(*  - Writer::finish writes the same bytes as Writer::into_inner           *)
(*  - Reader accessors: is_empty <=> len = 0; a cursor dereferences to its *)
(*    reader; into_reader / into_inner give the parts back                 *)
(*  - iterators are NOT fused (found by validating traces against a first  *)
(*    version of this module that claimed they were): a forward range      *)
(*    iterator whose start lies above the last key answers None and, if    *)
(*    called again, restarts from the first entry of the file.  C04 / C05  *)
(*    only speak of the entries yielded up to the first None, so this is   *)
(*    recorded as behaviour, not as a defect: callers must stop at None.   *)
(*  - cloned iterators continue independently from the same point          *)
(*  - merge functions are forwarded through &MF and Either                 *)
(***************************************************************************)
EXTENDS Integers, Sequences

CodecNames == [n \in {"snappy-pre-0.5", "zlib", "lz4", "zstd", "snappy"} |->
                 CASE n = "snappy-pre-0.5" -> 1 [] n = "zlib" -> 2 [] n = "lz4" -> 3 [] n = "zstd" -> 4 [] n = "snappy" -> 5]
FromStrOk(name, res) == IF name \in DOMAIN CodecNames THEN res = CodecNames[name] ELSE res = -1

DefaultCfg == [codec |-> 0, block_size |-> 8192, interval |-> 8, levels |-> 0]

\* an iterator run logged as: the entries yielded up to the first None, then the results of k
\* further calls (0 = None).  Nothing is required of them (see above); they are entries of the
\* file or None.
AfterNoneOk(after, n) == \A i \in 1..Len(after) : after[i] \in 0..n

\* a clone taken after j entries yields the same remaining entries as its original
CloneOk(full, j, fromClone, fromOrig) ==
    /\ fromClone = SubSeq(full, j + 1, Len(full))
    /\ fromOrig = SubSeq(full, j + 1, Len(full))
=============================================================================

SPECIFICATION WSpec
CONSTANTS
  L = 3
  K = 1
  BlockSize = 0
  MinBlock = 40
  KeyLen <- MCKeyLen
  ValLens = {0, 30}
  MaxInserts = 8
  SortedOnly = TRUE
  Keys = {1,2,3,4,5,6,7,8}
  LevelsFitU8 = TRUE
  Consecutive = FALSE
  MinFinish = 0
INVARIANTS FinishedWellFormed SortedNeverPanics FinishedAscending
PROPERTY AppendOnly
CHECK_DEADLOCK FALSE

#!/usr/bin/env python3
"""Orchestration library for the grenad TLA+ conformance checks (stdlib only)."""
import json, os, re, shutil, subprocess, sys, time, hashlib
from concurrent.futures import ThreadPoolExecutor

VERIF = os.path.dirname(os.path.dirname(os.path.abspath(__file__)))
SPEC = os.path.join(VERIF, "spec")
HARNESS = os.path.join(VERIF, "harness")
GV = os.path.join(HARNESS, "target", "debug", "gv")
GV_RELEASE = os.path.join(HARNESS, "target", "release", "gv")
OUT = os.path.join(VERIF, "out")
JAR = "/opt/veriftools/tla/tla2tools.jar:/opt/veriftools/tla/CommunityModules-deps.jar"
NCPU = min(16, os.cpu_count() or 4)


class ToolError(Exception):
    pass


class GvCrash(ToolError):
    """The harness process was killed (signal / abort) while running scenarios."""
    def __init__(self, rc, stderr, args):
        ToolError.__init__(self, "gv %s was killed (rc=%s): %s" % (" ".join(map(str, args)), rc, stderr[-600:]))
        self.rc, self.stderr, self.gv_args = rc, stderr, [str(a) for a in args]


def log(*a):
    print(*a, flush=True)


def build_harness(release=False):
    """Rebuilds the harness (and grenad from /repo's working tree, hooks enabled)."""
    t = time.time()
    env = dict(os.environ, CARGO_NET_OFFLINE="true")
    p = subprocess.run(["cargo", "build", "--offline"] + (["--release"] if release else []), cwd=HARNESS, env=env,
                       stdout=subprocess.PIPE, stderr=subprocess.STDOUT, text=True)
    if p.returncode != 0:
        sys.stderr.write(p.stdout[-4000:])
        raise ToolError("cargo build of the harness failed")
    return time.time() - t


def gv(args, timeout=3600, release=False):
    p = subprocess.run([GV_RELEASE if release else GV] + [str(a) for a in args], cwd=VERIF, stdout=subprocess.PIPE,
                       stderr=subprocess.PIPE, text=True, timeout=timeout)
    if p.returncode < 0 or p.returncode == 134 or "unsafe precondition" in p.stderr:
        raise GvCrash(p.returncode, p.stderr, args)
    if p.returncode != 0:
        raise ToolError("gv %s failed (%d): %s" % (" ".join(map(str, args)), p.returncode, p.stderr[-2000:]))
    last = p.stdout.strip().splitlines()[-1] if p.stdout.strip() else "{}"
    try:
        return json.loads(last)
    except Exception:
        return {"raw": p.stdout[-500:]}


def _mem_available_gb():
    try:
        with open("/proc/meminfo") as f:
            for line in f:
                if line.startswith("MemAvailable:"):
                    return int(line.split()[1]) / (1 << 20)
    except Exception:
        pass
    return 1e9


def _wait_for_memory(need_gb, patience=900):
    """Several JVMs are started in parallel (16 trace shards, possibly several checks at once on the
    same machine, no swap): wait until the heap about to be claimed is actually available."""
    t = time.time()
    while _mem_available_gb() < need_gb + 3 and time.time() - t < patience:
        time.sleep(1.5 + (os.getpid() % 7) * 0.1)


def _java(extra_env, args, timeout, xmx="3g", cwd=SPEC):
    _wait_for_memory(float(xmx[:-1]) if xmx.endswith("g") else 1.0)
    env = dict(os.environ)
    env["JAVA_TOOL_OPTIONS"] = "-Xss1g -Dtlc2.tool.queue.IStateQueue=StateDeque"
    env.update(extra_env)
    cmd = ["java", "-XX:+UseParallelGC", "-Xmx" + xmx, "-cp", JAR, "tlc2.TLC"] + args
    try:
        p = subprocess.run(cmd, cwd=cwd, env=env, stdout=subprocess.PIPE, stderr=subprocess.STDOUT,
                           text=True, timeout=timeout)
        return p.returncode, p.stdout
    except subprocess.TimeoutExpired as e:
        return 124, (e.stdout or b"").decode("utf-8", "replace") if isinstance(e.stdout, bytes) else (e.stdout or "")


_STATS = re.compile(r"(\d+) states generated, (\d+) distinct states found")
_REJ = re.compile(r'<<"REJECTED-AT-LINE", (\d+), "([^"]*)"')


def tlc_trace(module, cfg, trace, tag, timeout=1800):
    """Validates one trace file. Returns dict(accepted, line, ev, states, generated, out)."""
    meta = os.path.join(OUT, "tlc", tag)
    shutil.rmtree(meta, ignore_errors=True)
    # heap by trace size (the whole trace is deserialised into TLA+ values); retried with the full
    # heap if the small one turns out not to be enough
    size = os.path.getsize(trace) if os.path.exists(trace) else 0
    xmx = "1g" if size < (3 << 20) else ("2g" if size < (24 << 20) else "3g")
    rc, out = _java({"TRACE": os.path.abspath(trace)},
                    ["-workers", "1", "-metadir", meta, "-cleanup", "-noGenerateSpecTE",
                     "-config", cfg, module + ".tla"], timeout, xmx=xmx)
    if xmx != "3g" and ("OutOfMemoryError" in out or "GC overhead" in out or "Java heap space" in out):
        shutil.rmtree(meta, ignore_errors=True)
        rc, out = _java({"TRACE": os.path.abspath(trace)},
                        ["-workers", "1", "-metadir", meta, "-cleanup", "-noGenerateSpecTE",
                         "-config", cfg, module + ".tla"], timeout, xmx="3g")
    shutil.rmtree(meta, ignore_errors=True)
    m = _STATS.search(out)
    gen, dist = (int(m.group(1)), int(m.group(2))) if m else (0, 0)
    if "Model checking completed. No error has been found." in out and rc == 0:
        return dict(accepted=True, line=None, ev=None, states=dist, generated=gen, out=out)
    r = _REJ.search(out)
    if r:
        return dict(accepted=False, line=int(r.group(1)), ev=r.group(2), states=dist, generated=gen, out=out)
    raise ToolError("TLC trace validation of %s gave neither acceptance nor a rejection line (rc=%s):\n%s"
                    % (trace, rc, out[-3000:]))


def tlc_mc(module, cfg, tag, workers=4, timeout=3600, xmx="8g", extra=(), coverage=None):
    """Model-checks module with cfg. Returns dict(ok, violated, states, generated, out, secs)."""
    meta = os.path.join(OUT, "tlc", tag)
    shutil.rmtree(meta, ignore_errors=True)
    t = time.time()
    rc, out = _java({"JAVA_TOOL_OPTIONS": "-Xss32m"},
                    ["-workers", str(workers), "-metadir", meta, "-cleanup", "-noGenerateSpecTE"]
                    # per-action coverage statistics; too costly on the deeply recursive cursor model
                    + (["-coverage", "1"] if (coverage if coverage is not None else not module.startswith("MCCursor")) else [])
                    + ["-config", cfg] + list(extra) + [module + ".tla"], timeout, xmx=xmx)
    shutil.rmtree(meta, ignore_errors=True)
    ms = _STATS.findall(out)
    gen, dist = (int(ms[-1][0]), int(ms[-1][1])) if ms else (0, 0)
    ok = "Model checking completed. No error has been found." in out
    violated = None
    m = re.search(r"Error: Invariant (\S+) is violated", out)
    if m:
        violated = m.group(1)
    m = re.search(r"Error: Action property (\S+) is violated", out)
    if m:
        violated = m.group(1)
    if "Temporal properties were violated" in out and not violated:
        violated = "temporal"
    if "is violated" in out and not violated:
        violated = "property"
    if not ok and not violated:
        raise ToolError("TLC model checking of %s/%s failed (rc=%s):\n%s" % (module, cfg, rc, out[-3000:]))
    # per-action coverage: lines like "<Name line 12, col 1 to line 20, col 30 of module M>: 12:345"
    cov = {}
    for a, d, g in re.findall(r"^<(\w+) line \d+, col \d+ to line \d+, col \d+ of module \w+>: (\d+):(\d+)", out, re.M):
        cov[a] = cov.get(a, 0) + int(g)
    return dict(ok=ok, violated=violated, states=dist, generated=gen, out=out, secs=time.time() - t, coverage=cov)


def read_index(dirpath, prefix):
    """index file -> {shard: [(first_line, name), ...]}"""
    idx = {}
    with open(os.path.join(dirpath, prefix + ".index")) as f:
        for line in f:
            s, first, name = line.rstrip("\n").split("\t")
            idx.setdefault(int(s), []).append((int(first), name))
    return idx


def _scenario_at(entries, line):
    """entries sorted by first line; returns (i, first, name) containing `line`."""
    best = 0
    for i, (first, name) in enumerate(entries):
        if first <= line:
            best = i
    return best, entries[best][0], entries[best][1]


def validate_family(module, cfg, dirpath, prefix, tag, max_rejects=5, timeout=1800):
    """Validates all shards of a generated family in parallel. A rejected scenario is cut out
    and the rest of its shard is validated again, so every scenario gets a verdict.
    Returns dict(scenarios, events, states, generated, rejected=[{scn, ev, trace, tlc}]).
    """
    idx = read_index(dirpath, prefix)
    shards = sorted(idx.keys())

    def one(s):
        path = os.path.join(dirpath, "%s-%02d.ndjson" % (prefix, s))
        with open(path) as f:
            lines = f.readlines()
        entries = sorted(idx[s])
        distinct = set(hash(x) for x in lines if not x.startswith('{"ev":"Reset"') and '"ev":"Dict"' not in x[:40])
        rejected = []
        states = generated = 0
        cur_lines, cur_entries = lines, entries
        attempt = 0
        while True:
            tmp = path if attempt == 0 else path + ".retry%d" % attempt
            if attempt > 0:
                with open(tmp, "w") as f:
                    f.writelines(cur_lines)
            if not cur_lines:
                break
            r = tlc_trace(module, cfg, tmp, "%s-%s-%02d-%d" % (tag, prefix, s, attempt), timeout)
            if attempt > 0:
                os.unlink(tmp)
            states += r["states"]
            generated += r["generated"]
            if r["accepted"]:
                break
            i, first, name = _scenario_at(cur_entries, r["line"])
            last = cur_entries[i + 1][0] - 1 if i + 1 < len(cur_entries) else len(cur_lines)
            scn_lines = cur_lines[first - 1:last]
            rejected.append(dict(scn=name, ev=r["ev"], at=r["line"] - first + 1, lines=scn_lines,
                                 tlc=r["out"][-3000:]))
            # cut the scenario out, shift the later scenarios
            removed = last - first + 1
            cur_lines = cur_lines[:first - 1] + cur_lines[last:]
            cur_entries = cur_entries[:i] + [(f - removed, n) for (f, n) in cur_entries[i + 1:]]
            attempt += 1
            if len(rejected) >= max_rejects:
                break
        return dict(events=len(lines), scenarios=len(entries), states=states, generated=generated,
                    rejected=rejected, distinct=distinct)

    with ThreadPoolExecutor(max_workers=NCPU) as ex:
        res = list(ex.map(one, shards))
    tot = dict(events=0, scenarios=0, states=0, generated=0, rejected=[])
    alld = set()
    for r in res:
        alld |= r["distinct"]
        for k in ("events", "scenarios", "states", "generated"):
            tot[k] += r[k]
        tot["rejected"].extend(r["rejected"])
    tot["distinct"] = len(alld)
    return tot


def sample_scenario(dirpath, prefix, maxlines=12, maxchars=300):
    """First lines of the first scenario of shard 0, shortened, for the evidence file."""
    path = os.path.join(dirpath, "%s-00.ndjson" % prefix)
    out = []
    try:
        with open(path) as f:
            for i, line in enumerate(f):
                if i >= maxlines:
                    break
                s = line.strip()
                out.append(s if len(s) <= maxchars else s[:maxchars] + "...")
    except FileNotFoundError:
        pass
    return out


def file_violation(prop, rej, family_cmd):
    """Stores a rejected scenario under out/violations and returns the replay path."""
    h = hashlib.sha1(rej["scn"].encode()).hexdigest()[:10]
    d = os.path.join(OUT, "violations", prop, rej["scn"].replace("/", "_") + "-" + h)
    os.makedirs(d, exist_ok=True)
    with open(os.path.join(d, "trace.ndjson"), "w") as f:
        f.writelines(rej["lines"])
    with open(os.path.join(d, "tlc.out"), "w") as f:
        f.write(rej["tlc"])
    # scenarios derived from a model (histories, insert sequences, ...) are regenerated from the
    # JSON document TLC's output was turned into: keep a copy next to the trace
    if family_cmd.get("input") and os.path.exists(family_cmd["input"]):
        shutil.copy(family_cmd["input"], os.path.join(d, "input.json"))
        family_cmd = dict(family_cmd, input="input.json")
    with open(os.path.join(d, "scenario.json"), "w") as f:
        json.dump(dict(property=prop, scenario=rej["scn"], first_unmatched_event=rej["ev"],
                       line_in_scenario=rej["at"], spec=family_cmd), f, indent=1)
    with open(os.path.join(d, "README"), "w") as f:
        f.write("Scenario %s: the trace of the real code was rejected by the %s trace specification at\n"
                "line %d of trace.ndjson (event %s).\nReplay: bin/check %s --replay %s\n"
                % (rej["scn"], family_cmd.get("module"), rej["at"], rej["ev"], prop, d))
    return d


def write_evidence(prop, tier, seed, level, coverage, wall, violations, assumptions):
    evdir = os.path.join(VERIF, "evidence") if prop.startswith("C") else os.path.join(OUT, "evidence-extra")
    os.makedirs(evdir, exist_ok=True)
    ev = dict(property_id=prop, tier=tier, seed=seed, level=level, coverage=coverage,
              assumptions=assumptions, wall_s=round(wall, 2), violations=violations)
    tmp = os.path.join(evdir, prop + ".json.tmp")
    with open(tmp, "w") as f:
        json.dump(ev, f, indent=1)
    os.replace(tmp, os.path.join(evdir, prop + ".json"))


def crashed_scenario(dirpath, prefix):
    """Name of the scenario that was running when gv was killed: the last one begun (the index is
    flushed at every scenario start)."""
    last = None
    try:
        with open(os.path.join(dirpath, prefix + ".index")) as f:
            for line in f:
                parts = line.rstrip("\n").split("\t")
                if len(parts) == 3:
                    last = parts[2]
    except FileNotFoundError:
        pass
    return last


def file_crash(prop, scn, crash, spec):
    h = hashlib.sha1((scn or "unknown").encode()).hexdigest()[:10]
    d = os.path.join(OUT, "violations", prop, "crash-" + (scn or "unknown").replace("/", "_") + "-" + h)
    os.makedirs(d, exist_ok=True)
    with open(os.path.join(d, "stderr.txt"), "w") as f:
        f.write(crash.stderr[-6000:])
    with open(os.path.join(d, "scenario.json"), "w") as f:
        json.dump(dict(property=prop, scenario=scn, crash=True, rc=crash.rc, spec=spec), f, indent=1)
    with open(os.path.join(d, "README"), "w") as f:
        f.write("The harness process was killed (rc=%s) while the real code executed scenario %s:\n"
                "undefined behaviour caught by the standard library's precondition checks, or a fatal signal.\n"
                "Replay: bin/check %s --replay %s\n" % (crash.rc, scn, prop, d))
    return d

"""Per-property plans: which models TLC checks, which scenario families the harness runs on the
real code, and which trace specification judges the recorded traces."""

def G(family, quick, thorough, module, cfg, **kw):
    d = dict(family=family, quick=quick, thorough=thorough, module=module, cfg=cfg)
    d.update(kw)
    return d

def MC(module, cfg, **kw):
    d = dict(module=module, cfg=cfg)
    d.update(kw)
    return d

TRUST = ["TLC/SANY and the Json/IOUtils community modules",
         "harness glue that names a returned (key, value) by exact byte equality with an inserted pair",
         "dictionary ranks: TLC itself verifies that rank order is lexicographic byte order (Bytes!Cmp)"]

PLANS = {
    "C01": dict(level="model_checking", assumptions=TRUST,
                gen=[G("roundtrip", 600, 20000, "TraceCursor", "TraceCursor.cfg")]),
    "C02": dict(level="model_checking", assumptions=TRUST,
                gen=[G("seeks", 64, 2000, "TraceCursor", "TraceCursor.cfg")]),
    "C09": dict(level="model_checking", assumptions=TRUST + ["independent decoder: sequential walk, codec crates, LEB128 framing parser"],
                gen=[G("format", 400, 12000, "TraceLayout", "TraceLayout_C09.cfg")]),
    "C15": dict(level="model_checking", assumptions=TRUST + ["independent decoder: sequential walk, codec crates, LEB128 framing parser"],
                gen=[G("cut", 300, 10000, "TraceLayout", "TraceLayout_C15.cfg")]),
    "C18": dict(level="model_checking", assumptions=TRUST + ["independent decoder: sequential walk, codec crates, LEB128 framing parser"],
                gen=[G("unsorted", 1200, 40000, "TraceLayout", "TraceLayout_C18.cfg")]),
    "C03": dict(level="model_checking", assumptions=TRUST,
                gen=[G("history", 160, 6000, "TraceCursor", "TraceCursor.cfg")]),
}

"""Per-property plans: which models TLC checks, which scenario families the harness runs on the
real code, and which trace specification judges the recorded traces."""

def G(family, quick, thorough, module, cfg, **kw):
    d = dict(family=family, quick=quick, thorough=thorough, module=module, cfg=cfg)
    d.update(kw)
    return d

def MC(module, cfg, **kw):
    d = dict(module=module, cfg=cfg)
    d.update(kw)
    return d

import os, re, shutil, subprocess, time

def apalache_varint(prop, tier, seed, work):
    """Symbolic proof (Apalache) of Varint!RoundTrip over the whole 2^32 domain in group form."""
    from vlib import SPEC, OUT, ToolError
    d = os.path.join(OUT, "apalache", prop)
    shutil.rmtree(d, ignore_errors=True)
    os.makedirs(d, exist_ok=True)
    t = time.time()
    try:
        p = subprocess.run(["apalache-mc", "check", "--init=Init", "--next=Next", "--inv=Inv", "--length=0",
                            "--out-dir=" + d, os.path.join(SPEC, "VarintApa.tla")], cwd=d,
                           stdout=subprocess.PIPE, stderr=subprocess.STDOUT, text=True, timeout=900)
    except subprocess.TimeoutExpired:
        raise ToolError("apalache-mc timed out on VarintApa")
    ok = "The outcome is: NoError" in p.stdout
    shutil.rmtree(d, ignore_errors=True)
    if not ok:
        raise ToolError("Apalache did not prove VarintApa!Inv:\n" + p.stdout[-2000:])
    return (dict(kind="apalache", module="VarintApa", invariant="Inv", domain="all 2^32 lengths x every continuation of the buffer",
                 outcome="NoError", secs=round(time.time() - t, 1), states=1, transitions=1, evaluations=1, distinct_nontrivial=1), [])

def apalache_sorter(prop, tier, seed, work):
    """Apalache: the sorter's buffer bookkeeping invariant is inductive for every budget, capacity and
    entry size (base case + inductive step); the variant whose fit test forgets the 16-byte bound
    must be refuted (non-vacuity)."""
    from vlib import SPEC, OUT, ToolError
    d = os.path.join(OUT, "apalache", prop + "-sorter")
    shutil.rmtree(d, ignore_errors=True)
    os.makedirs(d, exist_ok=True)
    t = time.time()
    def run(path, mode):
        try:
            p = subprocess.run(["apalache-mc", "check"] + mode + ["--next=Next", "--inv=Inv", "--out-dir=" + os.path.join(d, "o"), path],
                               cwd=d, stdout=subprocess.PIPE, stderr=subprocess.STDOUT, text=True, timeout=900)
        except subprocess.TimeoutExpired:
            raise ToolError("apalache-mc timed out on " + path)
        return "The outcome is: NoError" in p.stdout, p.stdout
    good = os.path.join(SPEC, "SorterAcctApa.tla")
    for mode in (["--init=Init", "--length=0"], ["--init=IndInit", "--length=1"]):
        ok, out = run(good, mode)
        if not ok:
            raise ToolError("Apalache did not prove SorterAcctApa!Inv (%s):\n%s" % (" ".join(mode), out[-2000:]))
    bad = os.path.join(d, "SorterAcctApaBad.tla")
    src = open(good).read().replace("MODULE SorterAcctApa", "MODULE SorterAcctApaBad").replace("c - e - 16 * n >= 16 + s", "c - e - 16 * n >= s")
    open(bad, "w").write(src)
    ok, out = run(bad, ["--init=IndInit", "--length=1"])
    if ok:
        raise ToolError("non-vacuity self-test: the fit test without the bound size was expected to break SorterAcctApa!Inv")
    shutil.rmtree(d, ignore_errors=True)
    return (dict(kind="apalache", module="SorterAcctApa", invariant="Inv (inductive)", domain="all budgets, capacities, entry sizes; growth abstracted to any capacity in which the entry fits",
                 outcome="NoError", secs=round(time.time() - t, 1), states=2, transitions=2, evaluations=2, distinct_nontrivial=2), [])


def cursor_model(trees_quick, trees_thorough, sample_quick, extend_quick):
    """Spec -> implementation for the cursor: TLC explores the implementation-shaped model
    CursorImpl on the decoded trees of real corner files (checking Refines and LoadBound on every
    reachable state), prints one operation history per distinct model state, and the histories are
    replayed on the real cursor over the same files and validated against the Level-A contract."""
    def run(prop, tier, seed, work):
        import json, random
        from vlib import SPEC, OUT, GV, NCPU, ToolError, tlc_mc, gv, validate_family, sample_scenario, file_violation
        trees = trees_quick if tier == "quick" else trees_thorough
        cov = dict(kind="model-derived histories", trees=[], states=0, transitions=0, traces_validated_against_impl=0,
                   events_validated=0, evaluations=0, distinct_nontrivial=0, samples=[])
        viol = []
        rnd = random.Random(seed)
        for t in trees:
            r = tlc_mc("MCCursor_t%d" % t, "MCCursor_t%d_hist.cfg" % t, "%s-mcc-t%d" % (prop, t), workers=8, timeout=7200)
            if not r["ok"]:
                raise ToolError("CursorImpl (as repaired) violates %s on tree t%d" % (r["violated"], t))
            hists = []
            for line in r["out"].splitlines():
                if line.startswith('"HIST '):
                    body = line[len('"HIST '):-1].replace('\\"', '"')
                    steps = re.findall(r'<<"(\w+)", (\d+), (-?\d+), (\d+)>>', body)
                    hists.append([[a, int(b), int(c), int(d)] for a, b, c, d in steps])
            nstates = len(hists)
            # states reached by a relative move that had to load blocks (it crossed a data block and,
            # with >= 2 loads, an index block): the operations tried from them are the ones whose
            # answer depends on what the relative move left behind
            crossing = [h for h in hists if h and h[-1][0] in ("next", "prev") and h[-1][3] >= 2]
            if tier == "quick" and len(hists) > sample_quick:
                hists = rnd.sample(hists, sample_quick)
            hists.sort(key=len)
            d = os.path.join(work, "hist-t%d" % t)
            os.makedirs(d, exist_ok=True)
            # histories replayed as they are ...
            docs = [("plain", hists, [])]
            # ... and (a subset in quick, all in thorough) with every operation x probe tried from the state reached
            ext = hists if tier == "thorough" else (crossing[:40] + rnd.sample(hists, min(extend_quick, len(hists))))
            docs.append(("extend", ext, ["--extend"]))
            for tag, hs, extra in docs:
                dd = os.path.join(d, tag)
                os.makedirs(dd, exist_ok=True)
                with open(os.path.join(dd, "h.json"), "w") as f:
                    json.dump({"corner": t, "hists": hs}, f)
                info = gv(["hist", os.path.join(dd, "h.json"), "--out", dd, "--shards", NCPU] + extra)
                res = validate_family("TraceCursor", "TraceCursor_C16.cfg" if prop == "C16" else "TraceCursor.cfg", dd, "hist", "%s-hist-t%d-%s" % (prop, t, tag))
                cov["traces_validated_against_impl"] += res["scenarios"]
                cov["events_validated"] += res["events"]
                cov["evaluations"] += res["events"]
                cov["distinct_nontrivial"] += res["distinct"]
                cov["states"] += res["states"]
                cov["transitions"] += res["generated"]
                cov["trees"].append(dict(tree="t%d" % t, mode=tag, model_states=nstates, histories=len(hs), events=res["events"],
                                         model_results_compared=info.get("model_results_compared"),
                                         drift_model_vs_impl=info.get("model_result_drift"), rejected=len(res["rejected"])))
                if not cov["samples"]:
                    cov["samples"].append(dict(family="hist-t%d" % t, first_lines=sample_scenario(dd, "hist")))
                for rej in res["rejected"]:
                    p = file_violation(prop, rej, dict(module="TraceCursor", cfg="TraceCursor_C16.cfg" if prop == "C16" else "TraceCursor.cfg",
                                                       family="hist", tree=t, input=os.path.join(dd, "h.json"), extra=extra))
                    viol.append((p, "%s (history derived from the CursorImpl model of tree t%d) rejected at event %s" % (rej["scn"], t, rej["ev"])))
            cov["states"] += r["states"]; cov["transitions"] += r["generated"]
            cov["evaluations"] += r["states"]; cov["distinct_nontrivial"] += r["states"]
        return cov, viol
    return run

def writer_model(cfgs, num_quick, num_thorough):
    """Spec -> implementation for the writer: tlc -simulate on WriterImpl at real scale prints insert
    sequences together with the layout the model predicts; they are replayed on the real writer,
    the decoded bytes are judged by TLC (TraceLayout: format + cut rule), and the predicted layout is
    compared block by block (drift note)."""
    def run(prop, tier, seed, work):
        import json
        from vlib import SPEC, OUT, NCPU, ToolError, _java, gv, validate_family, sample_scenario, file_violation
        cov = dict(kind="model-derived insert sequences", runs=[], states=0, transitions=0, traces_validated_against_impl=0,
                   events_validated=0, evaluations=0, distinct_nontrivial=0, samples=[])
        viol = []
        num = num_quick if tier == "quick" else num_thorough
        for name in cfgs:
            meta = os.path.join(OUT, "tlc", "%s-wsim-%s" % (prop, name))
            shutil.rmtree(meta, ignore_errors=True)
            rc, out = _java({"JAVA_TOOL_OPTIONS": "-Xss32m"}, ["-workers", "4", "-simulate", "num=%d" % num, "-depth", "80", "-seed", str(seed),
                            "-metadir", meta, "-cleanup", "-noGenerateSpecTE", "-config", "MCWriterReal_%s.cfg" % name, "MCWriterReal.tla"], 1800)
            shutil.rmtree(meta, ignore_errors=True)
            if "is violated" in out or "Error:" in out:
                raise ToolError("WriterImpl (real scale, %s) violates its invariants in simulation:\n%s" % (name, out[-2000:]))
            seqs = {}
            for line in out.splitlines():
                if line.startswith('"WSEQ '):
                    body = line[len('"WSEQ '):-1]
                    m = re.match(r'<<<<([\d, ]*)>>, <<([\d, ]*)>>, <<(.*)>>>>$', body)
                    if not m:
                        continue
                    keys = [int(x) for x in m.group(1).split(",") if x.strip()]
                    vls = [int(x) for x in m.group(2).split(",") if x.strip()]
                    layout = [[int(a), int(b), int(c)] for a, b, c in re.findall(r'<<(\d+), (\d+), (\d+)>>', m.group(3))]
                    seqs[body] = dict(keys=keys, vls=vls, layout=layout)
            L, K = re.match(r'L(\d+)K(\d+)', name).groups()
            d = os.path.join(work, "wseq-" + name)
            os.makedirs(d, exist_ok=True)
            with open(os.path.join(d, "w.json"), "w") as f:
                json.dump(dict(name=name, L=int(L), K=int(K), seqs=list(seqs.values())), f)
            info = gv(["wseq", os.path.join(d, "w.json"), "--out", d, "--shards", NCPU])
            res = validate_family("TraceLayout", "TraceLayout_all.cfg", d, "wseq", "%s-wseq-%s" % (prop, name))
            for k2, k3 in (("traces_validated_against_impl", "scenarios"), ("events_validated", "events"), ("evaluations", "events"),
                           ("distinct_nontrivial", "distinct"), ("states", "states"), ("transitions", "generated")):
                cov[k2] += res[k3]
            cov["runs"].append(dict(cfg=name, sequences=len(seqs), model_blocks_compared=info.get("model_blocks_compared"),
                                    drift_model_vs_impl=info.get("model_layout_drift"), rejected=len(res["rejected"])))
            if not cov["samples"]:
                cov["samples"].append(dict(family="wseq-" + name, first_lines=sample_scenario(d, "wseq", maxlines=4)))
            for rej in res["rejected"]:
                p = file_violation(prop, rej, dict(module="TraceLayout", cfg="TraceLayout_all.cfg", family="wseq", name=name, input=os.path.join(d, "w.json")))
                viol.append((p, "%s (insert sequence generated from the WriterImpl model) rejected at event %s" % (rej["scn"], rej["ev"])))
        return cov, viol
    return run

def merger_model(sample_quick):
    """Spec -> implementation for the merger: every overlap pattern explored by TLC in the Merger
    model is replayed on the real merger (model keys expanded to groups of real keys), judged by
    TraceMerger, and the predicted order of sources per key is compared with the real output."""
    def run(prop, tier, seed, work):
        import json, random
        from vlib import NCPU, ToolError, tlc_mc, gv, validate_family, sample_scenario, file_violation
        r = tlc_mc("MCMerger", "MCMerger_emit.cfg", "%s-mcmerger-emit" % prop, workers=8, timeout=1800, coverage=False)
        if not r["ok"]:
            raise ToolError("Merger model violates %s" % r["violated"])
        runs = []
        for line in r["out"].splitlines():
            if line.startswith('"MRUN '):
                body = line[len('"MRUN '):-1]
                val = json.loads(body.replace("<<", "[").replace(">>", "]"))     # TLA+ tuples -> JSON arrays
                srcs, outs = val[0], val[1]
                runs.append(dict(srcs=srcs, out=outs))
        total = len(runs)
        if tier == "quick" and len(runs) > sample_quick:
            runs = random.Random(seed).sample(runs, sample_quick)
        d = os.path.join(work, "mrun")
        os.makedirs(d, exist_ok=True)
        with open(os.path.join(d, "m.json"), "w") as f:
            json.dump(dict(name="MCMerger", runs=runs), f)
        info = gv(["mrun", os.path.join(d, "m.json"), "--out", d, "--shards", NCPU, "--seed", seed])
        res = validate_family("TraceMerger", "TraceMerger.cfg", d, "mrun", "%s-mrun" % prop)
        cov = dict(kind="model-derived overlap patterns", patterns_in_model=total, replayed=len(runs),
                   model_keys_compared=info.get("model_keys_compared"), drift_model_vs_impl=info.get("model_order_drift"),
                   states=res["states"] + r["states"], transitions=res["generated"] + r["generated"],
                   traces_validated_against_impl=res["scenarios"], events_validated=res["events"],
                   evaluations=res["events"] + r["states"], distinct_nontrivial=res["distinct"] + r["states"],
                   samples=[dict(family="mrun", first_lines=sample_scenario(d, "mrun", maxlines=8))])
        viol = []
        for rej in res["rejected"]:
            p = file_violation(prop, rej, dict(module="TraceMerger", cfg="TraceMerger.cfg", family="mrun", input=os.path.join(d, "m.json"), extra=["--seed", str(seed)]))
            viol.append((p, "%s (overlap pattern from the Merger model) rejected at event %s" % (rej["scn"], rej["ev"])))
        return cov, viol
    return run

def sorter_model(cfgs, num_quick, num_thorough):
    """Spec -> implementation for the sorter's buffer accounting: tlc -simulate on Sorter.tla prints
    size sequences with the accounting the model predicts after each insert; they are replayed on the
    real sorter (hook H2); TraceAlloc judges the bookkeeping, the predicted values are compared."""
    def run(prop, tier, seed, work):
        import json
        from vlib import OUT, NCPU, ToolError, GvCrash, _java, gv, validate_family, sample_scenario, file_violation
        cov = dict(kind="model-derived size sequences", runs=[], states=0, transitions=0, traces_validated_against_impl=0,
                   events_validated=0, evaluations=0, distinct_nontrivial=0, samples=[])
        viol = []
        num = num_quick if tier == "quick" else num_thorough
        for name in cfgs:
            meta = os.path.join(OUT, "tlc", "%s-ssim-%s" % (prop, name))
            shutil.rmtree(meta, ignore_errors=True)
            rc, out = _java({"JAVA_TOOL_OPTIONS": "-Xss32m"}, ["-workers", "4", "-simulate", "num=%d" % num, "-depth", "70", "-seed", str(seed),
                            "-metadir", meta, "-cleanup", "-noGenerateSpecTE", "-config", "MCSorterGen_%s.cfg" % name, "MCSorter.tla"], 1800)
            shutil.rmtree(meta, ignore_errors=True)
            if "is violated" in out or "Error:" in out:
                raise ToolError("Sorter model (%s) violates its invariants in simulation:\n%s" % (name, out[-2000:]))
            consts = dict(re.findall(r"^  (\w+) = (\S+)$", open(os.path.join(os.path.dirname(os.path.abspath(__file__)), "..", "spec", "MCSorterGen_%s.cfg" % name)).read(), re.M))
            seqs = {}
            for line in out.splitlines():
                if line.startswith('"SSEQ '):
                    body = line[len('"SSEQ '):-1]
                    seqs[body] = json.loads(body.replace("<<", "[").replace(">>", "]"))
            d = os.path.join(work, "sseq-" + name)
            os.makedirs(d, exist_ok=True)
            with open(os.path.join(d, "s.json"), "w") as f:
                json.dump(dict(name=name, T=int(consts["T"]), InitCap=int(consts["InitCap"]), Realloc=consts["Realloc"] == "TRUE",
                               MaxChunks=int(consts["MaxChunks"]), seqs=list(seqs.values())), f)
            try:
                info = gv(["sseq", os.path.join(d, "s.json"), "--out", d, "--shards", NCPU])
            except GvCrash as crash:
                # the process running the real sorter was killed: memory-safety evidence (C17)
                from vlib import crashed_scenario, file_crash
                scn = crashed_scenario(d, "sseq")
                p = file_crash(prop, scn, crash, dict(module="TraceAlloc", cfg="TraceAlloc.cfg", family="sseq", name=name, input=os.path.join(d, "s.json")))
                shutil.copy(os.path.join(d, "s.json"), os.path.join(p, "input.json"))
                viol.append((p, "the process running the real code was killed while replaying size sequences (%s): %s"
                             % (scn, crash.stderr.strip().splitlines()[0][:200] if crash.stderr.strip() else "signal")))
                continue
            res = validate_family("TraceAlloc", "TraceAlloc.cfg", d, "sseq", "%s-sseq-%s" % (prop, name))
            for k2, k3 in (("traces_validated_against_impl", "scenarios"), ("events_validated", "events"), ("evaluations", "events"),
                           ("distinct_nontrivial", "distinct"), ("states", "states"), ("transitions", "generated")):
                cov[k2] += res[k3]
            cov["runs"].append(dict(cfg=name, sequences=len(seqs), model_steps_compared=info.get("model_steps_compared"),
                                    drift_model_vs_impl=info.get("model_accounting_drift"), rejected=len(res["rejected"])))
            if not cov["samples"]:
                cov["samples"].append(dict(family="sseq-" + name, first_lines=sample_scenario(d, "sseq", maxlines=6)))
            for rej in res["rejected"]:
                p = file_violation(prop, rej, dict(module="TraceAlloc", cfg="TraceAlloc.cfg", family="sseq", name=name, input=os.path.join(d, "s.json")))
                viol.append((p, "%s (size sequence generated from the Sorter model) rejected at event %s" % (rej["scn"], rej["ev"])))
        return cov, viol
    return run

TRUST = ["TLC/SANY and the Json/IOUtils community modules",
         "harness glue that names a returned (key, value) by exact byte equality with an inserted pair",
         "dictionary ranks: TLC itself verifies that rank order is lexicographic byte order (Bytes!Cmp)"]

PLANS = {
    "C01": dict(level="model_checking", assumptions=TRUST,
                mc=[MC("MCWriter", "MCWriter_sorted_a.cfg", workers=8), MC("MCWriter", "MCWriter_sorted_b.cfg", workers=8),
                    MC("MCWriter", "MCWriter_L255.cfg", workers=2),
                    MC("MCWriter", "MCWriter_L255_asfound.cfg", workers=2, expect="fail:SortedNeverPanics")],
                gen=[G("roundtrip", 600, 20000, "TraceCursor", "TraceCursor.cfg"),
                     G("roundtrip", 200, 5000, "TraceCursor", "TraceCursor.cfg", release=True),
                     # through a sink that accepts partial writes (the offsets the writer records must still be right)
                     G("roundtrip", 100, 2000, "TraceCursor", "TraceCursor.cfg", extra=["--wsched", "rand5"])]),
    "C02": dict(level="model_checking", assumptions=TRUST,
                mc=[MC("MCBlock", "MCBlock.cfg", workers=8), MC("MCBytes", "MCBytes.cfg", workers=8)],
                gen=[G("seeks", 128, 2000, "TraceCursor", "TraceCursor.cfg"),
                     G("big", 6, 80, "TraceCursor", "TraceCursor.cfg")]),
    "C04": dict(level="model_checking", assumptions=TRUST,
                mc=[MC("MCIter", "MCIter_quick.cfg", workers=4), MC("MCIter", "MCIter.cfg", workers=4, quick=False)],
                gen=[G("ranges", 144, 3000, "TraceIter", "TraceIter.cfg")]),
    "C05": dict(level="model_checking", assumptions=TRUST,
                mc=[MC("MCIter", "MCIter_quick.cfg", workers=4), MC("MCIter", "MCIter.cfg", workers=4, quick=False),
                    MC("MCBytes", "MCBytes.cfg", workers=8)],
                gen=[G("prefixes", 144, 3000, "TraceIter", "TraceIter.cfg")]),
    "C10": dict(level="model_checking", assumptions=TRUST + ["V1 files are built by replacing the V2 trailer of an index_levels=0 file with an independently encoded 21-byte V1 trailer"],
                gen=[G("roundtrip_v1", 150, 5000, "TraceCursor", "TraceCursor.cfg"),
                     # the V1 trailer read in short pieces / with interruptions
                     G("roundtrip_v1", 60, 1000, "TraceCursor", "TraceCursor.cfg", extra=["--rsched", "one"]),
                     G("roundtrip_v1", 60, 1000, "TraceCursor", "TraceCursor.cfg", extra=["--rsched", "rand41"]),
                     G("seeks_v1", 32, 800, "TraceCursor", "TraceCursor.cfg"),
                     G("history_v1", 48, 1500, "TraceCursor", "TraceCursor.cfg"),
                     G("iters_v1", 48, 1500, "TraceIter", "TraceIter.cfg")]),
    "C16": dict(level="model_checking", assumptions=TRUST + ["block loads are counted as absolute seeks on the instrumented source (every block load is preceded by exactly one)"],
                gen=[G("history", 100, 3000, "TraceCursor", "TraceCursor_C16.cfg"),
                     G("seeks", 32, 800, "TraceCursor", "TraceCursor_C16.cfg"),
                     G("big", 16, 200, "TraceCursor", "TraceCursor_C16.cfg"),
                     # the bound also holds while a source fails (no silent retries of block loads)
                     G("faults", 32, 600, "TraceFaults", "TraceFaults_C16.cfg")],
                mc=[MC("MCCursor_t15", "MCCursor_t15_fixed.cfg", workers=8),
                    MC("MCCursor_t59", "MCCursor_t59_fixed.cfg", workers=8),
                    MC("MCCursor_t50", "MCCursor_t50_fixed.cfg", workers=8, quick=False),
                    MC("MCCursor_t9", "MCCursor_t9_fixed.cfg", workers=8, quick=False, timeout=7200)]),
    "C06": dict(level="model_checking", assumptions=TRUST + ["values of merge calls / outputs are named (source, position) by exact byte equality with the values the sources hold"],
                mc=[MC("MCMerger", "MCMerger.cfg", workers=8), MC("MCMerger", "MCMerger_4x3.cfg", workers=8),
                    MC("MCMerger", "MCMerger_revtie.cfg", workers=8, expect="fail:OutPrefixOk"),
                    # thorough: every overlap pattern of 4 sources over 4 keys (442 368 states) and of 5 sources over 3 keys (193 536)
                    MC("MCMerger", "MCMerger_4x4.cfg", workers=8, quick=False), MC("MCMerger", "MCMerger_5x3.cfg", workers=8, quick=False),
                    # liveness: every next() consumes an entry of each popped source; iteration ends and stays ended
                    MC("MCMerger", "MCMerger_live.cfg", workers=4),
                    MC("MCMerger", "MCMerger_live_bad.cfg", workers=2, expect="fail:Progress")],
                extra=[merger_model(400)],
                gen=[G("merge", 400, 15000, "TraceMerger", "TraceMerger.cfg"),
                     # a key held by sources whose positions exceed 16 bits (65 540 sources)
                     G("merge_many", 1, 4, "TraceMerger", "TraceMerger.cfg", heavy=False)]),
    "C07": dict(level="model_checking", assumptions=TRUST + ["hook H2 lowers the minimum budget / initial capacity for the small-scale runs; rayon schedules are sampled (pool sizes), not enumerated"],
                mc=[MC("MCSorter", "MCSorter_content.cfg", workers=8), MC("MCSorter", "MCSorter_content1.cfg", workers=8),
                    # thorough: one more insert (1 195 742 states)
                    MC("MCSorter", "MCSorter_content6.cfg", workers=8, quick=False)],
                gen=[G("sorter", 320, 8000, "TraceSorter", "TraceSorter_C07.cfg"),
                     G("sorter", 160, 4000, "TraceSorter", "TraceSorter_C07.cfg", release=True),
                     # "any chunk creator": chunk storage that accepts / returns a few bytes per call
                     G("sorter", 120, 1500, "TraceSorter", "TraceSorter_C07.cfg", extra=["--wsched", "rand3", "--rsched", "rand4"]),
                     G("sorter", 40, 400, "TraceSorter", "TraceSorter_C07.cfg", extra=["--wsched", "one", "--rsched", "lenm1"]),
                     G("sorter_real", 4, 48, "TraceSorter", "TraceSorter_C07.cfg")]),
    "C08": dict(level="model_checking", assumptions=TRUST + ["hook H2 lowers the minimum budget / initial capacity for the small-scale runs"],
                mc=[MC("MCSorter", "MCSorter_acct_realloc.cfg", workers=4), MC("MCSorter", "MCSorter_acct_fixed.cfg", workers=4),
                    MC("MCSorter", "MCSorter_acct_1700.cfg", workers=4),
                    MC("MCSorter", "MCSorter_acct_usedbytes.cfg", workers=4, expect="fail:VolumeBound")],
                gen=[G("spill", 160, 4000, "TraceSorter", "TraceSorter_C08.cfg"),
                     G("sorter_real", 12, 96, "TraceSorter", "TraceSorter_C08.cfg")]),
    "C09": dict(level="model_checking", assumptions=TRUST + ["independent decoder: sequential walk, codec crates, LEB128 framing parser"],
                mc=[MC("MCWriter", "MCWriter_sorted_a.cfg", workers=8), MC("MCWriter", "MCWriter_sorted_c.cfg", workers=8)],
                extra=[writer_model(["L2K8", "L3K1"], 40, 400)],
                gen=[G("format", 400, 12000, "TraceLayout", "TraceLayout_C09.cfg", extra=["--raw"]),
                     # the same through a sink that accepts partial writes: recorded offsets must still be right
                     G("format", 120, 3000, "TraceLayout", "TraceLayout_C09.cfg", extra=["--wsched", "rand7"]),
                     G("chunks", 32, 160, "TraceLayout", "TraceLayout_C09.cfg", extra=["--raw"], heavy=False),
                     G("varint_windows", 2, 8, "TraceVarint", "TraceVarint_C09.cfg")]),
    "C11": dict(level="model_checking", assumptions=TRUST + ["stream equality is judged on (length, two independent 31-bit digests)", "read-side: results under a schedule are validated against the same contract specifications as the whole-buffer runs"],
                mc=[MC("MCIO", "MCIO_W.cfg", workers=2), MC("MCIO", "MCIO_R.cfg", workers=2),
                    MC("MCIO", "MCIO_Wbad.cfg", workers=2, expect="fail:CountOk"),
                    # liveness: under a sink / source that keeps making progress every write_all / read_exact returns
                    MC("MCIO", "MCIO_W_live.cfg", workers=2), MC("MCIO", "MCIO_R_live.cfg", workers=2)],
                gen=[G("wsched", 120, 4000, "TraceIO", "TraceIO.cfg"),
                     G("roundtrip", 100, 3000, "TraceCursor", "TraceCursor.cfg", extra=["--rsched", "rand3", "--wsched", "rand5"]),
                     G("roundtrip", 60, 1000, "TraceCursor", "TraceCursor.cfg", extra=["--rsched", "one", "--wsched", "lenm1"]),
                     G("roundtrip", 40, 600, "TraceCursor", "TraceCursor.cfg", extra=["--rsched", "oneintr", "--wsched", "oneintr"]),
                     G("format", 60, 2000, "TraceLayout", "TraceLayout_C09.cfg", extra=["--wsched", "rand11"]),
                     G("seeks", 24, 500, "TraceCursor", "TraceCursor.cfg", extra=["--rsched", "rand7"]),
                     G("history", 32, 1000, "TraceCursor", "TraceCursor.cfg", extra=["--rsched", "intr"]),
                     G("history", 32, 1000, "TraceCursor", "TraceCursor.cfg", extra=["--rsched", "lenm1"]),
                     G("ranges", 24, 600, "TraceIter", "TraceIter.cfg", extra=["--rsched", "rand13"]),
                     G("prefixes", 24, 600, "TraceIter", "TraceIter.cfg", extra=["--rsched", "one"]),
                     G("merge", 80, 3000, "TraceMerger", "TraceMerger.cfg", extra=["--rsched", "rand17", "--wsched", "rand19"]),
                     G("sorter", 80, 3000, "TraceSorter", "TraceSorter_C07.cfg", extra=["--rsched", "rand23", "--wsched", "rand29"]),
                     G("roundtrip_v1", 40, 600, "TraceCursor", "TraceCursor.cfg", extra=["--rsched", "rand31"])]),
    "C12": dict(level="fault_enumeration", assumptions=TRUST + ["a fault is injected by the harness' own wrappers around sink, source, chunk storage, chunk creator and merge function; Interrupted is a retry request (C11), not a failure"],
                gen=[G("faults", 48, 1200, "TraceFaults", "TraceFaults.cfg")]),
    "C13": dict(level="fault_enumeration", assumptions=TRUST,
                mc=[MC("MCTrailer", "MCTrailer.cfg", workers=2)],
                gen=[G("open", 18, 600, "TraceOpen", "TraceOpen.cfg"),
                     # the same when the source serves one byte per read / interrupts
                     G("open", 6, 100, "TraceOpen", "TraceOpen.cfg", extra=["--rsched", "one"]),
                     G("open", 6, 100, "TraceOpen", "TraceOpen.cfg", extra=["--rsched", "rand43"]),
                     # what the sink holds at any time is a prefix of the finished file, trailer last
                     G("wprefix", 200, 6000, "TraceIO", "TraceIO.cfg")]),
    "C14": dict(level="model_checking", assumptions=TRUST + ["hook H3 re-exports the private codec functions", "the 2^32 sweep evaluates the C14 predicate in the harness; TLC checks that all 256 chunks report zero failures, and re-evaluates the predicate itself on the boundary windows"],
                mc=[MC("MCVarint", "MCVarint.cfg", workers=4)],
                gen=[G("varint_sweep", 1, 1, "TraceVarint", "TraceVarint_C14.cfg", heavy=False),
                     G("varint_windows", 4, 16, "TraceVarint", "TraceVarint_C14.cfg"),
                     G("framing", 169, 200, "TraceCursor", "TraceCursor.cfg"),
                     # the same lengths as the first entry of a fresh sorter (buffer growth, dump, merge)
                     G("sorter_framing", 42, 84, "TraceSorter", "TraceSorter_C07.cfg", heavy=False)],
                extra=[apalache_varint]),
    "C15": dict(level="model_checking", assumptions=TRUST + ["independent decoder: sequential walk, codec crates, LEB128 framing parser"],
                mc=[MC("MCWriter", "MCWriter_sorted_a.cfg", workers=8), MC("MCWriter", "MCWriter_sorted_b.cfg", workers=8)],
                extra=[writer_model(["L3K1", "L4K3"], 40, 400)],
                gen=[G("cut", 300, 10000, "TraceLayout", "TraceLayout_C15.cfg"),
                     # the files the sorter writes itself (spilled and merged chunks)
                     G("chunks", 48, 320, "TraceLayout", "TraceLayout_C15.cfg", heavy=False)]),
    "C17": dict(level="other", crash_is_violation=True, extra=[sorter_model(["a", "b", "c"], 30, 400), apalache_sorter], explanation="Partial: decides the allocation protocol (layout equality, guard words, double free, leak of the sorter buffer class), the sorter's two-ended buffer bookkeeping (hook H2) and arithmetic overflow (checked build) on executions of the real code, validated by TLC against Alloc.tla. Out-of-bounds READS, use of freed memory through a lifetime-extended reference, alignment and provenance violations leave no trace in these events and are NOT decided (needs Miri/ASan, a different technique family).",
                assumptions=TRUST + ["monitoring global allocator of the harness process (header + canaries per block)", "hook H2 exposes the sorter's buffer accounting", "overflow checks of the dev-profile build"],
                mc=[MC("MCSorter", "MCSorter_acct_realloc.cfg", workers=4), MC("MCSorter", "MCSorter_acct_fixed.cfg", workers=4),
                    MC("MCSorter", "MCSorter_acct_big.cfg", workers=4)],
                gen=[G("alloc", 240, 4000, "TraceAlloc", "TraceAlloc.cfg", timeout=7200),
                     G("alloc", 60, 1000, "TraceSorterB", "TraceSorterB.cfg", drift=True),
                     G("alloc_readers", 40, 1200, "TraceAlloc", "TraceAlloc.cfg"),
                     # a merge function that failed once, a caller that keeps pulling: values handed out stay live memory
                     G("merge_resume", 40, 600, "TraceAlloc", "TraceAlloc.cfg"),
                     # real-scale growth of the sorter buffer: first entries on framing boundaries / powers of two
                     G("sorter_framing", 42, 84, "TraceSorter", "TraceSorter_C07.cfg", heavy=False),
                     # borrowed keys / values handed out by the read paths: freed memory is poisoned by the
                     # monitoring allocator, so a dangling reference yields bytes no contract accepts
                     G("history", 80, 2000, "TraceCursor", "TraceCursor.cfg"),
                     G("merge", 120, 3000, "TraceMerger", "TraceMerger.cfg"),
                     G("prefixes", 40, 800, "TraceIter", "TraceIter.cfg")]),
    # not a listed property: the rest of the public surface (Api.tla), run with `bin/check X01`;
    # its evidence goes to out/, it is not registered in MANIFEST.json
    "X01": dict(level="other", explanation="Specification growth beyond the listed properties: codec names, defaults, finish vs into_inner, accessors, fused and cloned iterators, forwarding of merge functions (Api.tla).",
                assumptions=TRUST, gen=[G("api", 60, 1500, "TraceApi", "TraceApi.cfg")]),
    "C18": dict(level="model_checking", assumptions=TRUST + ["independent decoder: sequential walk, codec crates, LEB128 framing parser"],
                mc=[MC("MCWriter", "MCWriter_unsorted.cfg", workers=8)],
                gen=[G("unsorted", 1200, 40000, "TraceLayout", "TraceLayout_C18.cfg"),
                     # the same with debug assertions compiled out (a release build of grenad)
                     G("unsorted", 600, 10000, "TraceLayout", "TraceLayout_C18.cfg", release=True)]),
    "C03": dict(level="model_checking", assumptions=TRUST,
                mc=[MC("MCCursor_t59", "MCCursor_t59_asfound.cfg", workers=8, expect="fail:Refines"),
                    MC("MCCursor_t50", "MCCursor_t50_asfound.cfg", workers=8, expect="fail:Refines", quick=False),
                    MC("MCCursor_t9", "MCCursor_t9_fixed.cfg", workers=8, quick=False, timeout=7200),
                    MC("MCCursor_t48", "MCCursor_t48_fixed.cfg", workers=8, quick=False, timeout=7200)],
                gen=[G("history", 160, 6000, "TraceCursor", "TraceCursor.cfg"),
                     # histories containing a call that failed (one-off source failure): absolute moves afterwards are exact
                     G("history_faulty", 120, 3000, "TraceCursor", "TraceCursor.cfg"),
                     # exhaustive exploration of the implementation's own reachable cursor states (hook H1)
                     G("explore", 10, 10, "TraceCursor", "TraceCursor.cfg", timeout=7200, tlc_timeout=7200)],
                extra=[cursor_model([15, 59], [0, 2, 15, 59, 50], 200, 12)]),
}
